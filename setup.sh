#!/bin/sh
# Build the /verif/.venv overlay (offline): /venv's packages + z3-solver + crosshair-tool + jsonschema.
set -e
cd "$(dirname "$0")"
if [ ! -x .venv/bin/python ] || ! .venv/bin/python -c "import z3, crosshair, jsonschema" 2>/dev/null; then
  rm -rf .venv
  /venv/bin/python -m venv .venv
  SP=$(.venv/bin/python -c "import sysconfig; print(sysconfig.get_paths()['purelib'])")
  printf "import site; site.addsitedir('/venv/lib/python3.12/site-packages')\n/repo\n" > "$SP/verif_overlay.pth"
  PIP_NO_INDEX=1 .venv/bin/pip install -q --no-index --find-links /opt/veriftools/wheels z3-solver crosshair-tool jsonschema
fi
.venv/bin/python -c "import z3, crosshair, jsonschema, vc2_conformance; print('overlay ok', z3.get_version_string())"
