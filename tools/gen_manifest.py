#!/usr/bin/env python3
"""Regenerate /verif/MANIFEST.json from the table below (keeps the manifest valid by construction)."""
import json, os, sys

VERIF = os.path.dirname(os.path.dirname(os.path.abspath(__file__)))

MC = "model_checking"
EX = "exploration"

# id -> (level category, text, note, technique, design section)
CLAIMED = {
    "C12": (MC,
            "Forking symbolic execution of the real quantisation functions with the coefficient an unbounded z3 Int; one path per "
            "quantisation index and sign class, every obligation (error < one step, sign kept, zero kept, index 0 lossless, monotone "
            "factors, distinct dequantised 1) decided unsat by z3 on every feasible path; exhaustive within the index bound.",
            "Trusted: symx engine (normal-form rewrites validated against z3 and concrete evaluation), z3 5.1, symbolic-aware abs injected "
            "into the module namespace. Bound: index 0..255 quick / 0..1023 thorough; coefficient unbounded.",
            "symbolic execution of the real Python functions (symx) + z3 Int, unsat per path", "3 C12"),
    "C02": (MC,
            "Symbolic execution of the real parse_stream on committed fixture streams in which chosen byte regions (every parse-info block, "
            "pairs of blocks, 2-byte windows over all headers and transform parameters, the first slice bytes, a 12-14 byte stream prefix) "
            "are fully symbolic bits, plus a symbolic truncation point; the exploration of each region is exhaustive (every feasible path, "
            "feasibility decided by z3); a path ending in anything but acceptance or a ConformanceError is a violation with the model's bytes "
            "as witness; every path's model is re-run on the plain decoder (same verdict) and every ConformanceError is pushed through the "
            "validator's reporting code.",
            "Trusted: symx engine, z3 5.1, SymFile, resource-bound wrapper (paths declaring sizes above the bounds are counted out_of_scope), "
            "relaxed value tables for levels 1/64/66. Bound: symbolic regions of 2-18 bytes on 15 (quick) / 19 (thorough) fixtures.",
            "symbolic execution of the real decoder (symx) over symbolic byte regions, z3 path feasibility, exhaustive within region", "3 C02"),
    "C01": (MC,
            "Streams are assembled from data-unit blocks cut from committed fixtures; block orders are enumerated (curated interaction "
            "orders + seeded sample of the product) and all next/previous parse offsets (32 bit), picture numbers (32 bit) and fragment "
            "offsets (16 bit) are symbolic. On every path of the real decoder z3 proves that the verdict equals an independent reference "
            "predicate of the stream-structure rules (hand-written automata for level patterns) and that rejections are ConformanceErrors.",
            "Trusted: the reference predicate lib/blocks.py (my reading of the property statement), symx, z3. Orders are enumerated, not "
            "solved: quick 700 + 43 curated orders of <=3 units, thorough 12000 of <=4 units (fraction of the product reported).",
            "symbolic execution of the real decoder (symx) vs reference predicate, z3 equivalence per path", "3 C01"),
    "C10": (MC,
            "Self-composition on the real decoder: sequences (block orders covering both profiles, versions 1-3, levels 0/1/66, pictures vs "
            "fragments, fields, and individually non-conformant members) are concatenated, one member with all structural fields symbolic; "
            "inside one path the decoder runs on the concatenation and on every part, and z3 proves verdict(concatenation) = conjunction of "
            "the parts, same exception class, and that the output pictures (numbers and samples) concatenate.",
            "Trusted: symx, z3, fixtures. Bound: pairs (quick) and triples (thorough) of 16 sequences; payloads concrete.",
            "symbolic execution of the real decoder (symx), self-composition, z3 per path", "3 C10"),
    "C06": (MC,
            "Symbolic execution of the real Deserialiser and Serialiser: byte regions of committed fixtures (parse code + next_parse_offset of "
            "every unit, header windows, transform parameters, slice qindex/length/payload bytes) are symbolic; on every path that parses to "
            "completion the description is serialised onto a symbolic file and z3 proves every output byte equal to the input byte; the "
            "output is deserialised again and compared structurally. Serialisation raising is a violation.",
            "Trusted: symx, z3, SymFile, list-based bytearray/bitarray stand-ins, serdes resource bounds (out-of-scope paths counted). "
            "Bound: symbolic regions of 1-5 bytes on 13 (quick) / 31 (thorough) fixtures.",
            "symbolic execution of the real (de)serialiser (symx) over symbolic byte regions, z3 byte equality per path", "3 C06"),
    "C08": (MC,
            "The real decoder (picture_decode wrapped to capture its transform data) and the real Deserialiser parse the same partly "
            "symbolic stream inside one path; on every accepting path z3 proves, per coefficient, that dc_prediction(inverse_quant("
            "deserialised value)) equals the decoder's transform data, and that picture numbers, transform and slice parameters and "
            "data-unit codes agree; bits_left >= 0 whenever a decoder bounded block is read.",
            "Trusted: symx, z3, the harness's placement of coefficients (uses the real slice_sizes functions), capture wrapper. Bound: "
            "1 symbolic byte at 8 seeded positions per picture/fragment unit of 8 fixtures, 2-byte windows on 3 (quick); all bytes and "
            "every third 2-byte window, 3-byte windows (thorough).",
            "symbolic execution of both real parsers on the same symbolic bytes (symx), z3 equality per coefficient", "3 C08"),
    "C09": (MC,
            "(a) the real picture_decode on transforms holding arbitrary symbolic integers: every output sample proved within "
            "[0, 2^depth-1], component shapes and pic_num checked, per (wavelet pair, depths, sizes, bit depths); (b) the real decoder on "
            "assembled streams with symbolic 32-bit picture numbers: one callback per picture / completed fragmented picture with the "
            "coded number; (c) picture_dimensions/video_depth with symbolic frame sizes and excursions.",
            "Trusted: symx (symbolic-aware min/max), z3. Bound: components up to 5x4 quick / 8x6 thorough, depth sum <=2 / <=3.",
            "symbolic execution of the real decoding functions (symx) + z3 Int", "3 C09"),
    "C17": (EX,
            "Solver-enumerated selectors drive every operation sequence / table / CSV text of the bound through the real ValueSet, "
            "constraint-table query functions and CSV reader; results compared with a Python-set model. Exhaustive within the bound; "
            "the solver contributes enumeration, not abstraction (values reach hash-keyed containers).",
            "Trusted: the set model in checks/c17.py. Bound: domain 0..4/0..5, <=3/<=4 operations, 2-3 table columns, 2x2..2x3 CSV cells.",
            "selector-symbolic bounded exhaustive exploration of the real code (symx) vs set model", "3 C17"),
    "C18": (EX,
            "Every syntax tree up to 5 (quick) / 6 (thorough) nodes over {a, b, .} (rendered and parsed by the real parser, also with a "
            "trailing $) and the repository's level / test-case patterns, against every symbol sequence up to length 4/5 chosen by "
            "solver-enumerated selectors; match_symbol, is_complete and valid_next_symbols compared with a Brzozowski-derivative reference.",
            "Trusted: lib/regex_ref.py. Exhaustive within the bound; selector-symbolic (symbols are dictionary keys).",
            "selector-symbolic bounded exhaustive exploration of the real matcher (symx) vs derivative reference", "3 C18"),
    "C19": (EX,
            "make_matching_sequence on every required list (<=2/<=3 symbols), pattern set (catalogue trees, seeded pairs, two-branch "
            "alternations, real level x test-case patterns) and depth limit of the bound, against a breadth-first reference over "
            "derivative tuples: supersequence, matches all, shortest, impossibility only when none exists. The known greedy-search "
            "defect is recognised by an executable characterisation (a greedy reference) and reported as KNOWN-FINDING.",
            "Trusted: lib/regex_ref.py. Exhaustive within the bound; selector-symbolic.",
            "selector-symbolic bounded exhaustive exploration of the real search (symx) vs BFS reference", "3 C19"),
    "C27": (EX,
            "Every history of up to 3/4 operations (18 operation instances incl. |=, |, update variants, setdefault, copy, pickle, delete, "
            "declared and undeclared keys) after 4 constructor variants on 6 library fixeddict types, against a plain-dict model.",
            "Trusted: the model in checks/c27.py. Exhaustive within the bound; selector-symbolic.",
            "selector-symbolic bounded exhaustive exploration of the real classes (symx) vs dict model", "3 C27"),
    "C03": (MC,
            "REDUCED CLAIM. For a catalogue of 28 concrete codec configurations with concrete tiny pictures, the "
            "first picture number is a symbolic 32-bit value (all 2^32 starting numbers, explicit or first-explicit-then-AUTO): the real "
            "make_sequence -> autofill_and_serialise_stream -> parse_stream pipeline is executed symbolically; accepted, one decoded "
            "picture per input in order, z3 proves the decoded picture numbers, video parameters / coding mode compared, lossless content equal.",
            "The configuration space and picture content are enumerated, not solved: pixel-content universality is carried by C04/C09/C14 "
            "and header universality by C15. Trusted: symx, z3.",
            "symbolic execution of the real encoder->serialiser->decoder pipeline (symx) with symbolic picture numbers", "3 C03"),
    "C04": (MC,
            "Compositional: (1) picture_decode(picture_encode(p)) = p for symbolic samples within the bit depth; (2) dc_prediction inverts "
            "apply_dc_prediction on arbitrary integer bands; (3) quantisation at index 0 is the identity; (4) calculate_coeffs_bits equals the "
            "bits the real writer emits and lossless length fields always hold them (code lengths havocked); (5) the full real pipeline on a "
            "2x1 picture over all 2-bit sample values, lossless and lossy-at-qindex-0; (6) the pipeline on the lossless configuration catalogue "
            "with extreme concrete pictures.",
            "The argument that 1-4 compose to the property for every configuration is informal; 5-6 check the composition on listed "
            "configurations only. Trusted: symx, z3.",
            "symbolic execution of the real transform/prediction/quantisation/length functions (symx) + z3; enumerated end-to-end glue", "3 C04"),
    "C07": (MC,
            "Stream descriptions built by the real encoder are given symbolic explicit values (32-bit picture numbers and parse offsets, "
            "major_version, preset indices, asymmetric-transform fields) under every explicit/AUTO mask of the bound; the real "
            "autofill_and_serialise_stream writes to a symbolic file and the real Deserialiser reads it back: z3 proves explicit values kept, "
            "AUTO picture numbers follow the reference recurrence, offsets equal true distances, AUTO major_version equals an independent "
            "reference of (11.2.2), and the real decoder raises no version error.",
            "Trusted: symx (incl. bit-blast on demand), z3, the reference version rule in checks/c07.py. Bound: <=4 pictures, <=2 sequences.",
            "symbolic execution of the real autofill + serialiser + deserialiser (symx), z3 equality per field", "3 C07"),
    "C14": (MC,
            "Caller/callee split over the real rate-control code: quantize_to_fit with havocked code lengths (smallest fitting index), the "
            "ceiling in calculate_hq_length_field, quantiser wiring and termination, make_transform_data_hq_lossy with symbolic picture_bytes "
            "under the proven contract (all length fields in [0,255], total within scaler of picture_bytes), low-delay target sizes vs the "
            "decoder's length-field width, and glue runs with symbolic coefficients through the real functions.",
            "The composition is informal; havoc stubs return arbitrary values within the contracts proved by the other obligations. Trusted: symx, z3.",
            "symbolic execution of the real rate-control functions with havocked callees (symx) + z3", "3 C14"),
    "C15": (MC,
            "For every base video format, the encoder's first alternative sequence headers are serialised by the real Serialiser and parsed by "
            "the real decoder with frame size/clean area, frame rate, pixel aspect ratio and signal ranges symbolic (8/12-bit): z3 proves every "
            "decoded video parameter and the coding mode equal the request; enum-valued parameters (every single deviation and every colour "
            "primaries x matrix x transfer function combination) and all real (level, format, profile) combinations are enumerated.",
            "Trusted: symx, z3. Regular formats only (frame size multiples of 4 when symbolic). Bound: 2/3 alternatives, 8/10-bit values.",
            "symbolic execution of the real header generator, serialiser and decoder (symx) + z3", "3 C15"),
    "C28": (MC,
            "CrossHair (symbolic str, z3) confirms contracts over parse_int_at_least / parse_int_enum on all short strings of a small "
            "alphabet; symx runs read_codec_features_csv on a valid table with one cell a symbolic numeral (z3 Int) or a selector-chosen "
            "textual mutation, all short parse_bool / quantisation-matrix strings, and structural mutations: the result lies in the "
            "documented domains or InvalidCodecFeaturesError is raised.",
            "Trusted: symx, CrossHair 0.0.110, z3; int/csv.reader shadows for the symbolic-numeral cases. CSV tokenisation (C module) is outside.",
            "CrossHair contracts + symbolic execution of the real CSV reader with symbolic numeral cells (symx)", "3 C28"),
    "C21": (EX,
            "A seeded catalogue of generated serdes programs (primitive fields, byte alignment, bounded blocks with padding, nested and "
            "typed subcontexts, lists of primitives and of subcontexts, computed values; depth <= 3) plus curated combinations is chosen by "
            "a solver-enumerated selector; every fixed-width leaf and the first three exp-Golomb leaves of the description are symbolic "
            "bits, so each program is round-tripped through the real Serialiser and Deserialiser for all values at once (z3 equality per "
            "leaf); every extra key / extra list element / removed needed value and a twice-used target must be rejected; typed contexts "
            "must stay attached to the tree.",
            "Programs are sampled from a grammar (72 quick / 500 thorough), not exhausted; selector-symbolic in the programs, symbolic in the "
            "values. Trusted: symx, z3, the description builder in checks/c21.py.",
            "selector-symbolic program catalogue + symbolic execution of the real SerDes classes with symbolic values (symx)", "3 C21"),
    "C20": (MC,
            "Symbolic execution of the real BitstreamReader/BitstreamWriter and of the decoder's read_* functions on the same buffer of "
            "symbolic bits: per path (one per exp-Golomb length class / end-of-file point / block length) z3 proves equal values, equal tell(), "
            "written bits = consumed bits, exp-Golomb length = consumed bits; bounded blocks with symbolic length; out-of-range writes; "
            "seek/tell; and the engine's if-converted functions equal the originals on all bit strings of the bound.",
            "Trusted: symx engine, z3 5.1, SymFile and list-based bytearray/bitarray stand-ins. Bound: 16 input bits quick, 24-32 thorough "
            "(values < 2^12); negative block lengths only for the bitstream reader.",
            "symbolic execution of the real Python I/O classes (symx) + z3 Int, unsat per path", "3 C20"),
    "C25": (MC,
            "The real command (vc2_bitstream_validator.main -> BitstreamValidator.run) is executed symbolically on fixture streams with "
            "symbolic byte regions / truncation point; on every path its return code is compared with a direct run of the real decoder on "
            "the same symbolic file (0 iff accepted, 2 iff ConformanceError, never anything else, never an escaping exception), the arguments "
            "of every picture write (file name numbering from 0 in decode order, picture, video parameters, coding mode; z3 equality per "
            "sample) with the decoder's callback output, and the located explanation / error line on code 2. Every path's model is then "
            "run through the real command on real files: same exit status, numbered raw+json pairs, contents read back with "
            "file_format.read equal the decoder's pictures.",
            "Trusted: symx, z3, SymFile behind open(), os.path.getsize and write() replaced in the command module on the symbolic side. "
            "Text rendering of symbolic values uses each path's representative value (format_shadow): formatting failures that depend on "
            "a value without any Python branch depending on it are outside. Bound: regions as C02 (1-byte windows inside data units at quick tier).",
            "symbolic execution of the real command and decoder on the same symbolic file (symx), z3 per path; each path replayed on real files", "3 C25"),
    "C26": (MC,
            "The real command (vc2_bitstream_viewer.main -> BitstreamViewer.run with its monitor, _print_value, format_value_line, "
            "is_internal_error, string formatters) is executed symbolically on fixture streams with symbolic byte regions, a symbolic "
            "stream prefix, and every truncation point, under default options and six option sets; on every path (feasibility by z3) "
            "the exit status must be 0, 2, 3 or 4 -- 255 or an exception escaping main() is a violation with the model's bytes as witness; "
            "all four statuses must be reached; every path's model is run through the real command on a real file (same status).",
            "Trusted: symx, z3, SymFile behind open(), os.path.getsize replaced in the command module on the symbolic side, serdes "
            "resource bounds (out-of-scope paths counted). Text rendering of symbolic values uses each path's representative value "
            "(format_shadow): formatter failures that depend on a value without any Python branch depending on it are outside. "
            "Bound: regions of 1-5 bytes on 8 (quick) / all (thorough) fixtures, 6-8 byte stream prefix.",
            "symbolic execution of the real viewer command (symx) over symbolic byte regions, z3 path feasibility; each path replayed on a real file", "3 C26"),
    "C16": (EX,
            "Synthetic single-column level tables (one or two restricted keys, every other key unconstrained) plus an ordering pattern "
            "are installed as level 1 in the repository's own tables; the restriction variants per key are derived from the values the "
            "validator checks on the unconstrained encoding (exactly those, a superset, a range, flipped flag, neighbouring values, zero; "
            "restrictions on keys the stream does not use). Which (configuration, pattern, key, variant) is installed is chosen by "
            "solver-enumerated selectors; the real make_sequence + serialiser + validator run on each: either an "
            "UnsatisfiableCodecFeaturesError or acceptance under the same table. Exhaustive over single keys within the catalogue, "
            "seeded sample of key pairs.",
            "Selector-symbolic: table cells live in hash-keyed ValueSets, so the solver enumerates cases and does not abstract values. "
            "Documented precondition applied: restrictions excluding the configuration's own values only for keys whose coding the encoder "
            "chooses (sequence-header parameters, extended-transform flags). Real level tables: C15. Bound: 8/10 configurations, 2/5 patterns.",
            "selector-symbolic bounded exhaustive exploration of the real encoder+validator under synthetic level tables (symx)", "3 C16"),
    "C11": (MC,
            "Symbolic execution of the real dwt_pad_addition/dwt/idwt/idwt_pad_removal on components whose samples are unbounded symbolic "
            "integers: one path per (filter pair, depths, size, component); every sample of the reconstruction is proved equal to the input "
            "and every subband shape equal to subband_width/height. The equalities close in the engine's linear normal form (hash-consed "
            "floor-division atoms cancel between analysis and synthesis; rewrite schemas are z3-certified); a residual that does not close is "
            "a z3 query and any model is replayed on the plain code.",
            "Trusted: symx normal form (schemas certified by z3 in selfcheck, concolic shadow values cross-check every replay), z3 5.1. "
            "Bound: 49 filter pairs, depth sum <=3 / <=4, sizes <=6x6 sampled / <=12x10 all; samples unbounded.",
            "symbolic execution of the real Python transform code (symx) with a linear-arithmetic normal form + z3 Int", "3 C11"),
    "C13": (MC,
            "Symbolic execution of the real slice_sizes functions with component sizes (and slice_bytes numerator/denominator) as unbounded "
            "symbolic integers; tiling, padded-size, flag-equivalence, non-negativity and telescoping-sum obligations are z3 queries "
            "(unsat on every path); slice counts, depths, levels and components are enumerated exhaustively in the box.",
            "Trusted: symx engine, z3 5.1 (non-linear queries with symbolic denominator are only issued for small slice counts). "
            "Bound: depths 0..4, slices <=8 / <=16 per axis, denominator <=64 / <=256 concrete plus symbolic.",
            "symbolic execution of the real Python functions (symx) + z3 Int, unsat per path", "3 C13"),
}

NA = {
    "C05": "quantifies over whole test-case generator runs (numpy pictures, PIL, generator registry) over an enumerated configuration space; no value stays symbolic from configuration to verdict, so a solver would decide nothing",
    "C22": "picture generators are numpy float pipelines (matmul, power, linalg.inv, PIL resampling): C-extension boundaries concretise every input and floats are out of reach of the engine",
    "C23": "byte packing is inline numpy over uint8/object arrays, metadata goes through json and the file system; a numpy stand-in would re-model the library rather than execute the code",
    "C24": "quantifier is over OS process schedules and hash seeds; nothing a solver can encode from the Python source",
}

PENDING_REASON = "check not built yet in this session (planned, see DESIGN.md section 3); not claimed until its quick command passes on the unchanged tree"


def main():
    props = [json.loads(l) for l in open(os.path.join(VERIF, "properties.jsonl"))]
    checks = []
    na = []
    for p in props:
        pid = p["id"]
        if pid in CLAIMED:
            cat, text, note, tech, ref = CLAIMED[pid]
            checks.append({
                "property_id": pid,
                "quick_cmd": "./check.py %s --tier quick" % pid,
                "thorough_cmd": "./check.py %s --tier thorough" % pid,
                "evidence_file": "evidence/%s.json" % pid,
                "replay_cmd_template": "./check.py %s --replay {path}" % pid,
                "engine": "symx",
                "level_claimed": {"category": cat, "text": text, "design_ref": "DESIGN.md section " + ref},
                "level_note": note,
                "technique": tech,
            })
        else:
            na.append({"property_id": pid, "reason": NA.get(pid, PENDING_REASON)})
    m = {
        "version": 1,
        "setup_cmd": "./setup.sh",
        "hooks": {
            "guard": "VC2_CONFORMANCE_VERIF",
            "enable": "no source hooks: the engine injects symbolic-aware names into module namespaces in-process (checks set VC2_CONFORMANCE_VERIF=1 for uniformity only)",
            "baseline_off_cmd": "cd /repo && /venv/bin/python -m pytest -ra -q -p no:cacheprovider --timeout=900 --continue-on-collection-errors",
            "source_commits": [],
            "add_only": True,
        },
        "engines": [{
            "name": "symx",
            "path": "symx/",
            "serves_properties": sorted(CLAIMED),
            "kind_free_text": "concolic forking symbolic executor for unmodified Python code over z3 Int (linear normal form, intervals, if-conversion from current source), sharded over 16 processes; witnesses replayed on the plain code",
        }],
        "checks": checks,
        "not_applicable": na,
        "notes": "Exit codes: 0 holds within stated bounds (exhaustive exploration, all obligations unsat); 1 VIOLATION reproduced on the plain code; 3 inconclusive/harness error (never success).",
    }
    json.dump(m, open(os.path.join(VERIF, "MANIFEST.json"), "w"), indent=1)
    print("claimed", len(checks), "n/a", len(na))


if __name__ == "__main__":
    main()
