#!/bin/sh
# usage: tools/try_seeded.sh <seed dir with patch.diff> <property id> [more ids]
# Applies the seeded change to /repo, runs the quick checks, reverts (as the brief prescribes).
# Do not use while other checks are running against /repo: they would see the seeded tree.
d=$1; shift
cd /repo || exit 2
if pgrep -f "check.py C.. --tier" > /dev/null; then echo "another check is running against /repo: refusing"; exit 2; fi
if [ -n "$(git status --porcelain)" ]; then echo "repo not clean"; exit 2; fi
git apply "$d/patch.diff" || { echo "patch does not apply: $d"; exit 2; }
for id in "$@"; do
  out=$(cd /verif && VERIF_SKIP_CANARIES=1 ./check.py $id --tier quick --no-evidence 2>&1)
  rc=$?
  echo "SEEDED $(basename $d) check=$id exit=$rc $(echo "$out" | grep -m2 -E 'VIOLATION|key=' | cut -c1-220 | tr '\n' ' ')"
  [ $rc -ne 1 ] && echo "$out" | tail -3 | cut -c1-300
done
git -C /repo checkout -- . && git -C /repo status --porcelain | head -3
