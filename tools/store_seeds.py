#!/usr/bin/env python3
"""Copy confirmed seeded changes from /tmp/seeded into /verif/seeded/<id>/ with a meta.json."""
import json, os, re, shutil, sys

SRC = "/tmp/seeded"
DST = os.path.join(os.path.dirname(os.path.dirname(os.path.abspath(__file__))), "seeded")
CAUGHT = json.load(open(os.path.join(os.path.dirname(os.path.abspath(__file__)), "seed_results.json")))

for name in sorted(os.listdir(SRC)):
    d = os.path.join(SRC, name)
    conf = os.path.join(d, "confirm.txt")
    if not os.path.exists(conf) or name not in CAUGHT:
        continue
    c = open(conf).read()
    ok = "demo on clean tree: exit 0" in c and "demo with change: exit 1" in c and "14 failed, 3499 passed" in c and "failures not in baseline:\n(end)" in c
    if not ok:
        print("NOT CONFIRMED", name)
        continue
    out = os.path.join(DST, name)
    os.makedirs(out, exist_ok=True)
    for f in ("patch.diff", "demo.py", "notes.txt", "confirm.txt"):
        if os.path.exists(os.path.join(d, f)):
            shutil.copy(os.path.join(d, f), os.path.join(out, f))
    notes = open(os.path.join(d, "notes.txt")).read() if os.path.exists(os.path.join(d, "notes.txt")) else ""
    meta = {
        "property": name.split("_")[0].rstrip("b"),
        "breaks": CAUGHT[name]["what"],
        "needs_to_manifest": CAUGHT[name]["needs"],
        "confirmed": {
            "how": "tools/confirm_seed.sh in a scratch worktree of /repo HEAD: demo.py on the clean tree (exit 0), git apply patch.diff, demo.py (exit 1), full test suite with the change (-n 10)",
            "tests_with_change": re.search(r"tests with change: (.*)", c).group(1),
            "new_test_failures": [],
        },
        "checks_run": CAUGHT[name]["checks"],
        "author": "independent sub-agent given only the property text and its own scratch worktree",
    }
    json.dump(meta, open(os.path.join(out, "meta.json"), "w"), indent=1)
    print("stored", name)
