#!/verif/.venv/bin/python
"""Generate /verif/fixtures from the *current* /repo tree (run once at the pinned commit; output committed).

    ./tools/gen_fixtures.py

Decoder-side checks read these files so that an encoder change cannot make them fail; each fixture's
expected verdict is re-checked against the plain decoder on every run."""
import hashlib, io, json, os, sys

VERIF = os.path.dirname(os.path.dirname(os.path.abspath(__file__)))
sys.path.insert(0, VERIF)
from lib.streams import minimal_codec_features, make_pictures, encode, decode, data_unit_offsets
from lib.levels import relax_levels
from vc2_data_tables import *  # noqa


def build():
    relax_levels()
    out = {}

    def add(name, data, desc, **meta):
        out[name] = (data, desc, meta)

    def enc(n=1, pats=(), first=None, **over):
        cf = minimal_codec_features(**over)
        return encode(cf, make_pictures(cf, n, first_pic_num=first), *pats)

    add("hq_min", enc(), "HQ lossy 8x4 4:4:4 Haar depth 1, 2x1 slices, 1 picture", slices=(2, 1))
    add("hq_2pics", enc(2), "as hq_min, 2 pictures", slices=(2, 1))
    add("hq_3pics_wrap", enc(3, first=0xFFFFFFFE), "3 pictures numbered 2^32-2, 2^32-1, 0", slices=(2, 1))
    add("hq_fields", enc(2, picture_coding_mode=PictureCodingModes.pictures_are_fields), "pictures are fields, 2 fields", slices=(2, 1))
    add("hq_frag", enc(1, fragment_slice_count=1), "HQ fragments, 1 slice per fragment", slices=(2, 1))
    add("hq_frag2", enc(2, fragment_slice_count=2), "HQ fragments, 2 slices per fragment, 2 pictures", slices=(2, 1))
    add("ld_min", enc(1, profile=Profiles.low_delay, picture_bytes=16), "LD lossy, 1 picture", slices=(2, 1))
    add("ld_frag", enc(1, profile=Profiles.low_delay, picture_bytes=16, fragment_slice_count=1), "LD fragments", slices=(2, 1))
    add("hq_lossless", enc(1, lossless=True, picture_bytes=None), "HQ lossless", slices=(2, 1))
    add("hq_asym", enc(1, dwt_depth_ho=1, wavelet_index_ho=WaveletFilters.le_gall_5_3, wavelet_index=WaveletFilters.haar_no_shift,
                       dwt_depth=1, lossless=True, picture_bytes=None), "asymmetric transform (major_version 3)", slices=(2, 1))
    add("hq_padaux", enc(1, pats=("sequence_header padding_data auxiliary_data high_quality_picture padding_data end_of_sequence",)),
        "padding and auxiliary data units (empty payloads)", slices=(2, 1))
    add("hq_420", enc(1, video_parameters=dict(color_diff_format_index=ColorDifferenceSamplingFormats.color_4_2_0)), "4:2:0", slices=(2, 1))
    add("hq_tiny", enc(1, video_parameters=dict(frame_width=2, frame_height=2, clean_width=2, clean_height=2), slices_x=1, slices_y=1, picture_bytes=8),
        "2x2 picture, one slice", slices=(1, 1))
    add("hq_tiny_lossless", enc(1, video_parameters=dict(frame_width=2, frame_height=1, clean_width=2, clean_height=1), slices_x=1, slices_y=1, dwt_depth=0,
                                lossless=True, picture_bytes=None), "2x1 picture, depth 0, lossless", slices=(1, 1))
    add("hq_2headers", enc(2, pats=("sequence_header high_quality_picture sequence_header high_quality_picture end_of_sequence",)),
        "sequence header repeated between pictures", slices=(2, 1))
    add("hq_level1", enc(2, level=Levels(1)), "level 1 (relaxed value table): pictures only", slices=(2, 1), relaxed_levels=True)
    add("hq_level1_frag", enc(1, level=Levels(1), fragment_slice_count=1), "level 1 (relaxed value table): fragments only", slices=(2, 1), relaxed_levels=True)
    add("hq_level66", enc(2, level=Levels(66)), "level 66 pattern (sequence_header high_quality_picture)* end_of_sequence", slices=(2, 1), relaxed_levels=True)
    def enc_kw(n=1, **kw):
        cf = minimal_codec_features()
        return encode(cf, make_pictures(cf, n), **kw)

    add("hq_scaler2", enc_kw(1, minimum_slice_size_scaler=2), "HQ lossy with slice_size_scaler 2", slices=(2, 1))
    add("hq_qindex", enc_kw(1, minimum_qindex=7), "HQ lossy with minimum qindex 7", slices=(2, 1))
    import vc2_data_tables as _T
    for idx in (7, 8):
        sr = _T.PRESET_SIGNAL_RANGES[_T.PresetSignalRanges(idx)]
        add("hq_signal_preset%d" % idx, enc(1, lossless=True, picture_bytes=None, video_parameters=dict(luma_offset=sr.luma_offset, luma_excursion=sr.luma_excursion,
            color_diff_offset=sr.color_diff_offset, color_diff_excursion=sr.color_diff_excursion)), "16-bit signal range preset %d (needs major_version 3)" % idx, slices=(2, 1))
    # pictures coded under major_version 3 (extended transform parameters present) without any feature that needs it:
    # individually valid data units, the stream as a whole is rejected (MajorVersionTooHigh)
    def enc_v3(**over):
        import io as _io
        from copy import deepcopy
        from vc2_conformance.encoder import make_sequence
        from vc2_conformance.bitstream import Stream, autofill_and_serialise_stream
        cf = minimal_codec_features(**over)
        seq = make_sequence(cf, deepcopy(make_pictures(cf, 2)))
        seq["data_units"][0]["sequence_header"]["parse_parameters"]["major_version"] = 3
        f = _io.BytesIO()
        autofill_and_serialise_stream(f, Stream(sequences=[seq]))
        return f.getvalue()

    add("hq_v3_pics", enc_v3(), "HQ pictures coded under an explicit major_version 3", slices=(2, 1), expect="MajorVersionTooHigh")
    add("ld_v3_pics", enc_v3(profile=Profiles.low_delay, picture_bytes=16), "LD pictures coded under an explicit major_version 3", slices=(2, 1), expect="MajorVersionTooHigh")
    # transform parameters changing between the pictures of one sequence (stale-state hazards)
    def splice(cfs, npics=1):
        import io as _io
        from copy import deepcopy
        from vc2_conformance.encoder import make_sequence
        from vc2_conformance.bitstream import Stream, Sequence, autofill_and_serialise_stream
        seqs = [make_sequence(cf, deepcopy(make_pictures(cf, npics))) for cf in cfs]
        units = [seqs[0]["data_units"][0]]
        for sq in seqs:
            units += [du for du in sq["data_units"][1:-1]]
        units.append(seqs[0]["data_units"][-1])
        for du in units:
            pp = du.get("picture_parse")
            if pp is not None:
                pp.setdefault("picture_header", {}).pop("picture_number", None)
        f = _io.BytesIO()
        autofill_and_serialise_stream(f, Stream(sequences=[Sequence(data_units=units)]))
        return f.getvalue()

    vp10 = dict(frame_width=10, frame_height=4, clean_width=10, clean_height=4)
    asym = minimal_codec_features(video_parameters=vp10, dwt_depth_ho=1, wavelet_index_ho=WaveletFilters.le_gall_5_3, lossless=True, picture_bytes=None,
                                  quantization_matrix={0: {"L": 0}, 1: {"H": 1}, 2: {"HL": 1, "LH": 1, "HH": 2}})
    symm = minimal_codec_features(video_parameters=vp10, lossless=True, picture_bytes=None)
    add("hq_asym_then_sym", splice([asym, symm]), "asymmetric picture followed by a symmetric picture in one sequence (10x4)", slices=(2, 1))
    other = minimal_codec_features(video_parameters=vp10, wavelet_index=WaveletFilters.le_gall_5_3, wavelet_index_ho=WaveletFilters.le_gall_5_3, dwt_depth=2,
                                   slices_x=1, slices_y=1, lossless=True, picture_bytes=None,
                                   quantization_matrix={0: {"LL": 1}, 1: {"HL": 2, "LH": 2, "HH": 3}, 2: {"HL": 0, "LH": 1, "HH": 4}})
    add("hq_params_change", splice([other, symm, other]), "wavelet, depth, slice counts and custom quantisation matrix change between pictures", slices=(2, 1))
    # hand-assembled: padding / auxiliary data with non-empty payloads, two sequences
    base = out["hq_padaux"][0]
    units = data_unit_offsets(base)
    # insert 3 payload bytes into the first padding unit (offset 21, length 13) and fix the offsets
    b = bytearray(base)
    pad_off = units[1][0]
    b[pad_off + 13:pad_off + 13] = b"\xAA\x55\x00"
    b[pad_off + 5:pad_off + 9] = (16).to_bytes(4, "big")
    nxt = pad_off + 16
    b[nxt + 9:nxt + 13] = (16).to_bytes(4, "big")
    add("hq_padaux_payload", bytes(b), "padding unit with a 3 byte payload", slices=(2, 1))
    add("two_sequences", out["hq_min"][0] + out["ld_min"][0], "HQ sequence followed by an LD sequence", slices=(2, 1))
    # non-conformant base streams (their rejection is the recorded verdict): symbolic regions around the offending unit
    def cat_units(parts):
        """parts: (fixture name, unit index); offsets and picture numbers fixed up to be otherwise consistent."""
        outb = bytearray()
        prev = 0
        pn = 0
        for nm, ui in parts:
            data = out[nm][0]
            us = data_unit_offsets_multi(data)
            off, code, npo, ln = us[ui]
            blk = bytearray(data[off:off + ln])
            blk[5:9] = (0 if code == 0x10 else ln).to_bytes(4, "big")
            blk[9:13] = prev.to_bytes(4, "big")
            if code in (0xE8, 0xC8, 0xEC, 0xCC):
                blk[13:17] = pn.to_bytes(4, "big")
            outb += blk
            prev = ln
        return bytes(outb)

    add("neg_pic_then_fragslice", cat_units([("hq_frag", 0), ("hq_v3_pics", 1), ("hq_frag", 2), ("hq_frag", 3), ("hq_frag", 4)]),
        "v3 picture followed by slice fragments with the same picture number and no initial fragment", slices=(2, 1), expect="FragmentedPictureMissingInitialFragment")
    add("neg_frag_then_pic", cat_units([("hq_frag", 0), ("hq_frag", 1), ("hq_frag", 2), ("hq_v3_pics", 1), ("hq_frag", 4)]),
        "picture inside an unfinished fragmented picture", slices=(2, 1), expect="PictureInterleavedWithFragmentedPicture")
    add("two_sequences_frag_then_pic", out["hq_frag"][0] + out["hq_2pics"][0], "fragmented sequence followed by a picture sequence", slices=(2, 1))
    return out


def main():
    fx = build()
    d = os.path.join(VERIF, "fixtures")
    os.makedirs(d, exist_ok=True)
    index = {}
    for name, (data, desc, meta) in sorted(fx.items()):
        v, pics = decode(data)
        exp = meta.get("expect", "ok")
        assert (v == "ok") if exp == "ok" else type(v).__name__ == exp, (name, v)
        open(os.path.join(d, name + ".bin"), "wb").write(data)
        index[name] = {
            "description": desc,
            "sha256": hashlib.sha256(data).hexdigest(),
            "length": len(data),
            "expect": exp,
            "pictures": len(pics),
            "units": [list(u) for u in data_unit_offsets_multi(data)],
        }
        index[name].update({k: (list(v) if isinstance(v, tuple) else v) for k, v in meta.items()})
        print(name, len(data), len(pics))
    json.dump(index, open(os.path.join(d, "index.json"), "w"), indent=1, sort_keys=True)


def data_unit_offsets_multi(data):
    """(offset, parse_code, next_parse_offset, length) of every data unit, across sequences."""
    out = []
    off = 0
    while off + 13 <= len(data):
        code = data[off + 4]
        npo = int.from_bytes(data[off + 5:off + 9], "big")
        if code == 0x10:
            out.append((off, code, npo, 13))
            off += 13
            continue
        out.append((off, code, npo, npo))
        off += npo
    return out


if __name__ == "__main__":
    main()
