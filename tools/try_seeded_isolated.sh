#!/bin/sh
# usage: tools/try_seeded_isolated.sh <seed dir> <property id> [more ids]
# Like try_seeded.sh but in a scratch worktree (VERIF_REPO), so that checks running against /repo are not disturbed.
d=$1; shift
wt=/tmp/wt/iso_$$
git -C /repo worktree add -q --detach $wt HEAD || exit 2
git -C $wt apply "$d/patch.diff" || { echo "patch does not apply: $d"; git -C /repo worktree remove --force $wt; exit 2; }
for id in "$@"; do
  out=$(cd /verif && VERIF_REPO=$wt VERIF_SKIP_CANARIES=1 ./check.py $id --tier quick --no-evidence 2>&1)
  rc=$?
  echo "SEEDED $(basename $d) check=$id exit=$rc $(echo "$out" | grep -m2 -E 'VIOLATION|key=' | cut -c1-220 | tr '\n' ' ')"
  [ $rc -ne 1 ] && echo "$out" | tail -3 | cut -c1-300
done
git -C /repo worktree remove --force $wt
