#!/bin/sh
# usage: tools/confirm_seed.sh <seed dir> ; confirms in a scratch worktree that the change applies, the demo fails with it and
# passes without it, and the existing test suite still shows exactly the baseline failures.  Writes <seed dir>/confirm.txt
d=$1
wt=/tmp/wt/confirm_$$
git -C /repo worktree add -q --detach $wt HEAD || exit 2
cd $wt
{
echo "seed: $d"
PYTHONPATH=$wt /venv/bin/python $d/demo.py > /tmp/demo_clean_$$.out 2>&1; echo "demo on clean tree: exit $?"
git apply $d/patch.diff && echo "patch applied"
PYTHONPATH=$wt /venv/bin/python $d/demo.py > /tmp/demo_seeded_$$.out 2>&1; echo "demo with change: exit $?"
tail -3 /tmp/demo_seeded_$$.out | cut -c1-300
PYTHONPATH=$wt /venv/bin/python -m pytest -q -p no:cacheprovider --timeout=900 -n ${CONFIRM_N:-10} tests 2>&1 | grep -E "^FAILED|passed|failed" | sed 's/ - .*//' | sort > /tmp/tests_$$.out
echo "tests with change: $(grep -E 'passed|failed' /tmp/tests_$$.out | tail -1)"
echo "failures not in baseline:"
grep ^FAILED /tmp/tests_$$.out | grep -v -E "test_color_conversion|test_completeness|test_tokenisation_errors|test_parallel|test_vc2_test_case_generator_worker.py::test_roundtrip"
echo "(end)"
} > $d/confirm.txt 2>&1
cd /; git -C /repo worktree remove --force $wt
rm -f /tmp/demo_clean_$$.out /tmp/demo_seeded_$$.out /tmp/tests_$$.out
cat $d/confirm.txt
