#!/bin/sh
# Re-run every claimed quick check against /repo (writes evidence/<id>.json) and print one summary line per check.
cd "$(dirname "$0")/.."
rc_all=0
for c in $(python3 -c "import json; print(' '.join(c['property_id'] for c in json.load(open('MANIFEST.json'))['checks']))"); do
  out=$(./check.py $c --tier quick 2>&1); rc=$?
  echo "$c exit=$rc $(echo "$out" | grep -E "^$c tier|VIOLATION|INCONCLUSIVE|KNOWN-FINDING" | cut -c1-200 | tr '\n' ' ')"
  [ $rc -ne 0 ] && rc_all=1
done
exit $rc_all
