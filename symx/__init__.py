from symx.core import *  # noqa
