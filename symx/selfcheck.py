"""Engine self-validation, run at the start of every check (a failure is a harness error, exit 3).

1. The rewrite *schemas* the normal form relies on are discharged by z3 (for every power of two up to 2^64 and the
   odd constants occurring in the repository's arithmetic).
2. Bit-operation identities over Python's unbounded integers (which z3's Int theory does not have) are checked
   exhaustively on a box of concrete values.
3. Random expression trees are evaluated three ways -- plain Python, the SymInt shadow value, and z3 model evaluation of
   the SymInt's term -- and must agree (seeded by VERIF_SEED).
"""
from __future__ import annotations

import random
import time

import z3

from symx import core

CONSTS = [1 << k for k in range(1, 65)] + [3, 5, 7, 24, 40, 255, 105917, 117708, 65444, 1001]


def _valid(f, timeout=20000):
    s = z3.Solver()
    s.set("timeout", timeout)
    s.add(z3.Not(f))
    return str(s.check()) == "unsat"


def schemas():
    D, R, j, x, lo, hi, a, b, t = z3.Ints("D R j x lo hi a b t")
    out = {"proved": 0, "failed": []}

    def need(name, f):
        if _valid(f):
            out["proved"] += 1
        else:
            out["failed"].append(name)

    for m in CONSTS:
        M = z3.IntVal(m)
        need("split-div %d" % m, z3.Implies(z3.And(j * M <= R, R < (j + 1) * M), (M * D + R) / M == D + j))
        need("split-mod %d" % m, z3.Implies(z3.And(j * M <= R, R < (j + 1) * M), (M * D + R) % M == R - j * M))
        need("div-interval %d" % m, z3.Implies(z3.And(lo <= x, x <= hi), z3.And(lo / M <= x / M, x / M <= hi / M)))
        need("mod-interval %d" % m, z3.And(0 <= x % M, x % M <= M - 1))
    need("ite-linear", z3.Implies(z3.Or(t == 0, t == 1), z3.If(t == 1, a, b) == b + (a - b) * t))
    need("abs-interval", z3.Implies(z3.And(lo <= x, x <= hi), z3.And(z3.If(x >= 0, x, -x) >= 0, z3.If(x >= 0, x, -x) <= z3.If(-lo >= hi, -lo, hi))))
    need("abs-of-negated-ite", z3.If(t == 1, a, -a) * z3.If(z3.If(t == 1, a, -a) >= 0, 1, -1) == z3.If(a >= 0, a, -a))
    need("min-interval", z3.Implies(z3.And(lo <= a, lo <= b), z3.If(a <= b, a, b) >= lo))
    need("max-interval", z3.Implies(z3.And(a <= hi, b <= hi), z3.If(a <= b, b, a) <= hi))
    for c in (1, 2, 3, 7, 255, -1, -2, -5):
        C = z3.IntVal(c)
        k = z3.Int("k")
        if c > 0:
            need("narrow<= %d" % c, z3.Implies(C * a + k <= 0, a <= (-k) / C))
            need("narrow>= %d" % c, z3.Implies(C * a + k >= 0, a >= -((k) / C)))
        else:
            need("narrow<=neg %d" % c, z3.Implies(C * a + k <= 0, a >= -((-k) / C) if False else C * a <= -k))
    return out


def bit_identities():
    bad = []
    n = 0
    for x in range(-70, 71):
        for y in list(range(-20, 21)) + [255, 256, -256, 0xFFFF]:
            n += 1
            if (x | y) != x + y - (x & y) or (x ^ y) != x + y - 2 * (x & y) or (~x) != -x - 1:
                bad.append((x, y))
        for i in range(0, 9):
            for jx in range(i + 1, 10):
                mask = ((1 << jx) - 1) ^ ((1 << i) - 1)
                n += 1
                if (x & mask) != (x % (1 << jx)) - (x % (1 << i)):
                    bad.append((x, mask))
                if (x & ~mask) != x - (x & mask):
                    bad.append((x, ~mask))
    return {"checked": n, "failed": bad[:5]}


def _rand_tree(rnd, leaves, depth):
    if depth == 0 or rnd.random() < 0.2:
        return rnd.choice(leaves + [("c", rnd.randint(-9, 9))])
    op = rnd.choice(["+", "-", "*c", "//c", "%c", ">>", "<<", "&m", "|c", "abs", "min", "max", "neg", "ite"])
    a = _rand_tree(rnd, leaves, depth - 1)
    if op in ("+", "-", "min", "max"):
        return (op, a, _rand_tree(rnd, leaves, depth - 1))
    if op == "ite":
        return (op, a, _rand_tree(rnd, leaves, depth - 1), _rand_tree(rnd, leaves, depth - 1))
    if op == "*c":
        return (op, a, rnd.randint(-5, 5))
    if op in ("//c", "%c"):
        return (op, a, rnd.choice([1, 2, 3, 4, 7, 8, 16, 255, 256, -3]))
    if op in (">>", "<<"):
        return (op, a, rnd.randint(0, 5))
    if op == "&m":
        return (op, a, rnd.choice([1, 3, 0xF0, 0xFF, ~0xF, 6, -1, 0]))
    if op == "|c":
        return (op, a, rnd.choice([0, 1, 8, 0x80]))
    return (op, a)


def _ev(t, env, sabs, smin, smax, site):
    k = t[0]
    if k == "v":
        return env[t[1]]
    if k == "c":
        return t[1]
    a = _ev(t[1], env, sabs, smin, smax, site)
    if k == "+":
        return a + _ev(t[2], env, sabs, smin, smax, site)
    if k == "-":
        return a - _ev(t[2], env, sabs, smin, smax, site)
    if k == "*c":
        return a * t[2]
    if k == "//c":
        return a // t[2]
    if k == "%c":
        return a % t[2]
    if k == ">>":
        return a >> t[2]
    if k == "<<":
        return a << t[2]
    if k == "&m":
        return a & t[2]
    if k == "|c":
        return a | t[2]
    if k == "abs":
        return sabs(a)
    if k == "neg":
        return -a
    if k == "min":
        return smin(a, _ev(t[2], env, sabs, smin, smax, site))
    if k == "max":
        return smax(a, _ev(t[2], env, sabs, smin, smax, site))
    b = _ev(t[2], env, sabs, smin, smax, site)
    c = _ev(t[3], env, sabs, smin, smax, site)
    return site(a > 0, b, c)


def differential(seed, n=250):
    rnd = random.Random(seed)
    bad = []
    done = 0
    for i in range(n):
        names = ["x", "y", "z"]
        vals = {nm: rnd.randint(-300, 300) for nm in names}
        tree = _rand_tree(rnd, [("v", nm) for nm in names], 4)
        plain = _ev(tree, vals, abs, min, max, lambda c, a, b: a if c else b)
        eng = core.Engine({})
        holder = {}

        def h(ctx):
            env = {nm: ctx.sym_int("%s_%d" % (nm, i), -300, 300, default=vals[nm]) for nm in names}
            r = _ev(tree, env, core.sym_abs, core.sym_min, core.sym_max, core.ite)
            holder["r"] = r
            holder["env"] = env
            return 0

        try:
            core.run_path(h, eng, [], {})
        except core.EngineError as e:
            if "overlapping" in str(e):
                continue  # documented unsupported case
            bad.append((tree, "EngineError %s" % e))
            continue
        r = holder["r"]
        done += 1
        if core.cv_of(r) != plain:
            bad.append((tree, vals, "shadow %r != python %r" % (core.cv_of(r), plain)))
            continue
        if isinstance(r, core.SymInt):
            s = z3.Solver()
            for nm in names:
                s.add(z3.Int("%s_%d" % (nm, i)) == vals[nm])
            # blast / definitional side constraints live in the engine's solver: reuse it
            eng.solver.push()
            for nm in names:
                eng.solver.add(z3.Int("%s_%d" % (nm, i)) == vals[nm])
            eng.solver.add(r.z() != plain)
            res = str(eng.solver.check())
            eng.solver.pop()
            if res != "unsat":
                bad.append((tree, vals, "z3 term differs from python value %r (%s)" % (plain, res)))
    return {"trees": done, "failed": [repr(b)[:300] for b in bad[:3]]}


def run(seed=0):
    t0 = time.time()
    s = schemas()
    b = bit_identities()
    d = differential(seed)
    ok = not s["failed"] and not b["failed"] and not d["failed"]
    return ok, {"schemas_proved_by_z3": s["proved"], "schema_failures": s["failed"], "bit_identity_cases": b["checked"], "bit_identity_failures": b["failed"],
                "random_trees_agreeing": d["trees"], "random_tree_failures": d["failed"], "seconds": round(time.time() - t0, 2)}


if __name__ == "__main__":
    import json, sys

    ok, info = run(int(sys.argv[1]) if len(sys.argv) > 1 else 0)
    print(json.dumps(info, indent=1))
    sys.exit(0 if ok else 3)
