"""
symx.shims -- make the repository's modules symbolic-aware *without editing their source*.

* ``install_builtins()`` injects symbolic-aware ``abs``/``min``/``max``/``range`` (and list-based
  ``bytearray``/``bitarray`` stand-ins for the two I/O modules) as module-level names of the
  ``vc2_conformance.*`` modules, shadowing the builtins for code defined there only.  All of them
  delegate to the real builtin when no symbolic value is involved.
* ``if_convert(func)`` re-compiles a function from its *current source text* after rewriting
  ``if <test>: <assignments>`` (no ``else``; body = assignments of call-free expressions) into an
  if-then-else merge when ``<test>`` is symbolic, and swaps the function's ``__code__`` in place
  so that every importer sees it.  The original branchy form is kept for concrete tests.

Only worker processes of the symbolic pool call these; replays run in processes without shims.
"""
from __future__ import annotations

import ast
import builtins
import inspect
import sys
import textwrap

from symx import core

_installed = False


class SymBytes(list):
    """List of byte cells (int or SymInt) standing in for bytes/bytearray."""

    def tobytes(self):
        return bytes(bytearray(core.cur().concretize(b) if core.is_sym(b) else b for b in self))


def sym_bytearray(*args):
    if not args:
        return SymBytes()
    (a,) = args
    if isinstance(a, (bytes, builtins.bytearray)):
        return builtins.bytearray(a)
    if isinstance(a, int) and not isinstance(a, bool):
        return builtins.bytearray(a)
    seq = list(a)
    if any(core.is_sym(x) for x in seq) or isinstance(a, SymBytes):
        return SymBytes(seq)
    return builtins.bytearray(seq)


class SymBitArray(list):
    """List of bit cells standing in for bitarray.bitarray when bits are symbolic."""

    def tobytes(self):
        out = SymBytes()
        bits = list(self)
        while len(bits) % 8:
            bits.append(0)
        for i in builtins.range(0, len(bits), 8):
            v = 0
            for b in bits[i : i + 8]:
                v = (v << 1) + b
            out.append(v)
        if not any(core.is_sym(x) for x in out):
            return bytes(bytearray(out))
        return out

    def to01(self):
        c = core.cur()
        if c.format_shadow:  # text rendering: representative value, no fork (see SymInt.__format__)
            return "".join(str(core.cv_of(b)) for b in self)
        return "".join(str(c.concretize(b)) for b in self)


def _make_sym_bitarray(real_bitarray):
    def sym_bitarray(*args, **kw):
        if len(args) == 1 and not kw and not isinstance(args[0], (str, bytes, int)):
            seq = list(args[0])
            if any(core.is_sym(x) for x in seq):
                return SymBitArray(seq)
            return real_bitarray(seq)
        return real_bitarray(*args, **kw)

    return sym_bitarray


def repo_modules():
    return [
        m
        for n, m in list(sys.modules.items())
        if m is not None and (n == "vc2_conformance" or n.startswith("vc2_conformance."))
    ]


def install_builtins():
    """Inject the symbolic-aware names into every loaded vc2_conformance module."""
    global _installed
    import vc2_conformance  # noqa: F401
    import vc2_conformance.decoder  # noqa: F401
    import vc2_conformance.bitstream  # noqa: F401
    import vc2_conformance.encoder  # noqa: F401
    import vc2_conformance.bitstream.io as bio
    import vc2_conformance.decoder.io as dio

    for m in repo_modules():
        d = m.__dict__
        for name, fn in (
            ("abs", core.sym_abs),
            ("min", core.sym_min),
            ("max", core.sym_max),
            ("range", core.sym_range),
        ):
            # do not clobber a module's own definition of such a name
            if name not in d or d[name] is getattr(builtins, name):
                d[name] = fn
    dio.__dict__["bytearray"] = sym_bytearray
    bio.__dict__["bytearray"] = sym_bytearray
    if not getattr(bio.bitarray, "_symx", False):
        f = _make_sym_bitarray(bio.bitarray)
        f._symx = True
        bio.__dict__["bitarray"] = f
    _installed = True


# ---------------------------------------------------------------------- if-conversion
def _has_call_or_div(node):
    for n in ast.walk(node):
        if isinstance(n, (ast.Call, ast.Yield, ast.YieldFrom, ast.Await, ast.Lambda, ast.NamedExpr)):
            return True
        if isinstance(n, ast.BinOp) and isinstance(n.op, (ast.Div, ast.FloorDiv, ast.Mod, ast.Pow)):
            return True
    return False


def _simple_target(t):
    if isinstance(t, ast.Name):
        return True
    if isinstance(t, ast.Attribute):
        return isinstance(t.value, ast.Name)
    if isinstance(t, ast.Subscript):
        return not _has_call_or_div(t)
    return False


def _load(t):
    t2 = ast.parse(ast.unparse(t), mode="eval").body
    return t2


class _IfConv(ast.NodeTransformer):
    def __init__(self):
        self.count = 0

    def visit_If(self, node):
        self.generic_visit(node)
        if node.orelse:
            return node
        news = []
        for st in node.body:
            if isinstance(st, ast.Assign) and len(st.targets) == 1:
                tgt, new = st.targets[0], st.value
            elif isinstance(st, ast.AugAssign):
                tgt = st.target
                new = ast.BinOp(left=_load(tgt), op=st.op, right=st.value)
            else:
                return node
            if not _simple_target(tgt) or _has_call_or_div(new):
                return node
            news.append((tgt, new))
        self.count += 1
        tname = "__symx_t%d" % self.count
        merged = []
        for tgt, new in news:
            merged.append(
                ast.Assign(
                    targets=[tgt],
                    value=ast.Call(
                        func=ast.Name(id="__symx_ite", ctx=ast.Load()),
                        args=[ast.Name(id=tname, ctx=ast.Load()), new, _load(tgt)],
                        keywords=[],
                    ),
                )
            )
        out = [
            ast.Assign(targets=[ast.Name(id=tname, ctx=ast.Store())], value=node.test),
            ast.If(
                test=ast.Call(
                    func=ast.Name(id="__symx_is_sym", ctx=ast.Load()),
                    args=[ast.Name(id=tname, ctx=ast.Load())],
                    keywords=[],
                ),
                body=merged,
                orelse=[ast.If(test=ast.Name(id=tname, ctx=ast.Load()), body=node.body, orelse=[])],
            ),
        ]
        return out


_converted = {}


def if_convert(func):
    """Swap func.__code__ for an if-converted recompilation of its current source.

    Returns the number of ``if`` statements converted (0: function left untouched)."""
    func = getattr(func, "__func__", func)
    if func in _converted:
        return _converted[func]
    src = textwrap.dedent(inspect.getsource(func))
    tree = ast.parse(src)
    fdef = tree.body[0]
    fdef.decorator_list = []
    conv = _IfConv()
    tree = conv.visit(tree)
    ast.fix_missing_locations(tree)
    if conv.count == 0:
        _converted[func] = 0
        return 0
    if func.__code__.co_freevars:
        raise core.EngineError("cannot if-convert a closure: %s" % func.__qualname__)
    g = func.__globals__
    g["__symx_ite"] = core.ite
    g["__symx_is_sym"] = core.is_sym
    ns = {}
    code = compile(tree, inspect.getsourcefile(func) or "<symx>", "exec")
    exec(code, g, ns)
    new = ns[fdef.name]
    _codes[func] = (func.__code__, new.__code__)
    func.__code__ = new.__code__
    _converted[func] = conv.count
    return conv.count


_codes = {}


def set_ifconv(on):
    """Switch every converted function between its original and its if-converted code object."""
    for f, (orig, new) in _codes.items():
        f.__code__ = new if on else orig


def install_ifconv(only=None):
    """If-convert the fixed list of bit-level reader/writer functions (DESIGN 2.4).
    ``only``: optional collection of function names to restrict the list."""
    import vc2_conformance.bitstream.io as bio
    import vc2_conformance.decoder.io as dio

    out = {}
    for f in (
        bio.BitstreamWriter.write_bit,
        bio.BitstreamReader.read_sint,
        dio.read_uint,
        dio.read_uintb,
        dio.read_sint,
        dio.read_sintb,
    ):
        if only is not None and f.__name__ not in only:
            continue
        out[f.__module__ + "." + f.__qualname__] = if_convert(f)
    return out


def install_all(ifconv=True):
    install_builtins()
    if not ifconv:
        return {}
    if ifconv is True:
        return install_ifconv()
    return install_ifconv(only=set(ifconv))
