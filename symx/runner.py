"""
symx.runner -- drives a check: shards explorations over worker processes, validates explored
paths against the plain implementation, replays witnesses, matches known findings, writes evidence.

A check module provides

  PROPERTY_ID, LEVEL, RULE (str), ASSUMPTIONS (list of str), STUBS (list of str)
  tasks(tier, seed)            -> list of task dicts {"id", "harness", "args", ...}
  build(task)                  -> harness fn(ctx) (called in a shimmed worker)
  validate(task, inputs, outcome) -> None | str     (plain process: path prediction vs real code)
  replay(task, label, inputs, extra) -> dict(reproduced=bool, key=str, detail=str)  (plain process)
  canaries()                   -> optional list of (name, patch_fn) for --canaries

Exit codes: 0 holds within bounds; 1 violation (reproduced on the plain code, not a known finding);
3 inconclusive / harness error.
"""
from __future__ import annotations

import hashlib
import importlib
import inspect
import json
import multiprocessing as mp
import os
import sys
import time
import traceback
from collections import Counter, deque
from concurrent.futures import ProcessPoolExecutor, wait, FIRST_COMPLETED

VERIF = os.path.dirname(os.path.dirname(os.path.abspath(__file__)))
NPROC = int(os.environ.get("VERIF_NPROC", "16"))

_W = {}


# ---------------------------------------------------------------------------- worker side
def _limit_memory():
    import resource

    gb = float(os.environ.get("VERIF_WORKER_GB", "3.5"))
    try:
        resource.setrlimit(resource.RLIMIT_AS, (int(gb * (1 << 30)), int(gb * (1 << 30))))
    except Exception:
        pass


def _sym_init(modname, canary):
    sys.setrecursionlimit(10000)
    _limit_memory()
    from symx import shims

    mod = importlib.import_module(modname)
    _W["mod"] = mod
    _W["ifconv"] = shims.install_all(ifconv=getattr(mod, "IFCONV", True))
    if canary is not None:
        dict(mod.canaries())[canary]()
    _W["profiled"] = set()


def _plain_init(modname, canary):
    sys.setrecursionlimit(10000)
    _limit_memory()
    mod = importlib.import_module(modname)
    _W["mod"] = mod
    if canary is not None:
        dict(mod.canaries())[canary]()


def _collect_functions(fn, engine, start):
    """Run one path under a profiler to list the repository functions entered."""
    from symx import core

    seen = {}

    def prof(frame, event, arg):
        if event == "call":
            co = frame.f_code
            fnm = co.co_filename
            if "/vc2_conformance/" in fnm:
                seen[(fnm, co.co_firstlineno, co.co_qualname)] = 1

    sys.setprofile(prof)
    try:
        ctx, res = core.run_path(fn, engine, start[0], start[1])
    finally:
        sys.setprofile(None)
    out = {}
    for (fnm, line, qn) in seen:
        mod = fnm.split("/vc2_conformance/", 1)[1][:-3].replace("/", ".")
        out["vc2_conformance.%s:%s" % (mod, qn)] = _src_hash(fnm, line)
    return ctx, res, out


_SRC = {}


def _src_hash(fnm, line):
    try:
        if fnm not in _SRC:
            _SRC[fnm] = open(fnm).read().split("\n")
        lines = _SRC[fnm]
        # hash the def block: from its first line to the next line with smaller/equal indentation
        i = line - 1
        while i < len(lines) and lines[i].lstrip().startswith("@"):
            i += 1
        ind = len(lines[i]) - len(lines[i].lstrip())
        j = i + 1
        while j < len(lines):
            l = lines[j]
            if l.strip() and (len(l) - len(l.lstrip())) <= ind and not l.lstrip().startswith(")"):
                break
            j += 1
        return hashlib.sha1("\n".join(lines[i:j]).encode()).hexdigest()[:12]
    except Exception:
        return "?"


def _jsonable(x):
    if isinstance(x, (str, int, float, bool)) or x is None:
        return x
    if isinstance(x, (list, tuple)):
        return [_jsonable(i) for i in x]
    if isinstance(x, dict):
        return {str(k): _jsonable(v) for k, v in x.items()}
    if isinstance(x, (bytes, bytearray)):
        return bytes(x).hex()
    return repr(x)


def _work(item):
    """Explore (part of) one task.  Returns a picklable summary."""
    from symx import core

    task, start, budget_s, max_paths = item
    mod = _W["mod"]
    t0 = time.time()
    if os.environ.get("VERIF_WATCHDOG"):  # debugging aid: where is a work item after N seconds?
        import faulthandler

        _W["wd"] = open("/tmp/watchdog_%d.txt" % os.getpid(), "a")
        _W["wd"].write("== task %s\n" % task["id"])
        _W["wd"].flush()
        faulthandler.dump_traceback_later(int(os.environ["VERIF_WATCHDOG"]), file=_W["wd"])
    out = {
        "task": task["id"],
        "paths": 0,
        "decisions": 0,
        "queries": 0,
        "unsat": 0,
        "sat": 0,
        "unknown": 0,
        "solver_s": 0.0,
        "proved": 0,
        "proved_norm": 0,
        "aborted": Counter(),
        "outcomes": Counter(),
        "failed": [],
        "paths_for_validation": [],
        "nonexhaustive": [],
        "leftover": [],
        "functions": {},
        "error": None,
        "ifconv": _W.get("ifconv"),
    }
    try:
        fn = mod.build(task)
        opts = dict(getattr(mod, "ENGINE_OPTS", {}))
        opts.update(task.get("engine_opts", {}))
        engine = core.Engine(opts)
        stack = [start] if start is not None else [([], {})]
        deadline = t0 + budget_s
        want_validate = hasattr(mod, "validate")
        first = True
        while stack:
            if out["paths"] >= max_paths or time.time() > deadline:
                break
            st = core.as_start(stack.pop())
            if first and task["harness"] not in _W["profiled"] and start is None:
                ctx, res, fns = _collect_functions(fn, engine, st)
                out["functions"] = fns
                _W["profiled"].add(task["harness"])
            else:
                ctx, res = core.run_path(fn, engine, st[0], st[1])
            first = False
            stack.extend(ctx.pending)
            out["paths"] += 1
            out["decisions"] += res.decisions
            out["proved"] += res.proved
            out["proved_norm"] += res.proved_norm
            if res.abort:
                out["aborted"][res.abort] += 1
            else:
                oc = res.outcome
                okey = oc if isinstance(oc, str) else json.dumps(_jsonable(oc))
                out["outcomes"][okey] += 1
                if want_validate and len(out["paths_for_validation"]) < task.get("validate_cap", 100000):
                    out["paths_for_validation"].append((res.inputs, _jsonable(oc) if not isinstance(oc, (str, list, tuple)) else oc))
            if res.nonexhaustive:
                out["nonexhaustive"].append(res.nonexhaustive)
            for f in res.failed:
                out["failed"].append((f[0], f[1], f[2], _jsonable(f[3])))
        out["queries"] = engine.n_queries
        out["unsat"] = engine.n_unsat
        out["sat"] = engine.n_sat
        out["unknown"] = engine.n_unknown
        out["solver_s"] = engine.solver_s
        out["leftover"] = [core.as_start(x) for x in stack]
    except BaseException as e:  # EngineError and anything unexpected: harness failure
        out["error"] = "%s: %s\n%s" % (type(e).__name__, e, traceback.format_exc()[-3000:])
    out["wall"] = time.time() - t0
    return out


def _validate_batch(batch):
    mod = _W["mod"]
    if os.environ.get("VERIF_WATCHDOG"):
        import faulthandler

        _W["wd"] = open("/tmp/watchdog_plain_%d.txt" % os.getpid(), "a")
        _W["wd"].write("== batch %s\n" % batch[0][0]["id"])
        _W["wd"].flush()
        faulthandler.dump_traceback_later(int(os.environ["VERIF_WATCHDOG"]), file=_W["wd"])
    bad = []
    viol = []
    n = 0
    for task, inputs, outcome in batch:
        try:
            r = mod.validate(task, inputs, outcome)
        except BaseException as e:
            r = "validate raised %s: %s" % (type(e).__name__, e)
        n += 1
        if isinstance(r, dict):
            viol.append((task, inputs, r))
        elif r:
            bad.append((task["id"], inputs, _jsonable(outcome), r))
    return n, bad, viol


def _replay_one(args):
    mod = _W["mod"]
    task, label, inputs, extra = args
    try:
        return mod.replay(task, label, inputs, extra)
    except BaseException as e:
        return {
            "reproduced": False,
            "key": "replay-error",
            "detail": "replay raised %s: %s\n%s" % (type(e).__name__, e, traceback.format_exc()[-1500:]),
        }


# ---------------------------------------------------------------------------- parent side
def load_known_findings():
    p = os.path.join(VERIF, "known_findings.json")
    if not os.path.exists(p):
        return []
    return json.load(open(p)).get("findings", [])


def run_check(modname, tier, seed, canary=None, quiet=False):
    """Run one check module.  Returns (exit_code, evidence dict)."""
    t0 = time.time()
    if os.environ.get("VERIF_WATCHDOG"):
        import faulthandler

        faulthandler.dump_traceback_later(int(os.environ["VERIF_WATCHDOG"]), repeat=True, file=open("/tmp/watchdog_parent.txt", "w"))
    mod = importlib.import_module(modname)
    pid = mod.PROPERTY_ID
    tasks = mod.tasks(tier, seed)
    if os.environ.get("VERIF_TASKS"):  # debugging aid only: never set by a registered command (check.py then writes no evidence)
        import re as _re

        tasks = [t for t in tasks if _re.search(os.environ["VERIF_TASKS"], t["id"])]
    by_id = {t["id"]: t for t in tasks}
    budget = int(os.environ.get("VERIF_BUDGET_S") or getattr(mod, "BUDGET_S", {"quick": 600, "thorough": 3600})[tier])
    deadline = t0 + budget
    ctxm = mp.get_context("fork")
    sym_pool = ProcessPoolExecutor(NPROC, mp_context=ctxm, initializer=_sym_init, initargs=(modname, canary))
    plain_pool = ProcessPoolExecutor(
        max(2, NPROC // 2), mp_context=ctxm, initializer=_plain_init, initargs=(modname, canary)
    )
    agg = {
        "paths": 0,
        "decisions": 0,
        "queries": 0,
        "unsat": 0,
        "sat": 0,
        "unknown": 0,
        "solver_s": 0.0,
        "proved": 0,
        "proved_norm": 0,
    }
    outcomes = Counter()
    aborted = Counter()
    per_task_paths = Counter()
    per_task_wall = Counter()
    functions = {}
    failed = []
    nonexh = []
    errors = []
    samples = []
    ifconv = None
    validated = 0
    mismatches = []
    val_violations = []  # violations found while validating paths on the plain code (already reproduced)
    from symx import selfcheck

    sc_ok, sc_info = selfcheck.run(int(seed))
    if not sc_ok:
        errors.append(("engine-selfcheck", repr(sc_info)[:600]))
    pre_violations = []
    if hasattr(mod, "precheck"):
        pre_violations = list(mod.precheck())
    pending = deque((t, None, 2.0, 100000) for t in tasks)
    inflight = {}
    vflight = set()
    timed_out = False
    early = False
    broken = False
    try:
        while pending or inflight:
            while pending and len(inflight) < NPROC * 2:
                it = pending.popleft()
                inflight[sym_pool.submit(_work, it)] = it
            done, _ = wait(list(inflight), timeout=1.0, return_when=FIRST_COMPLETED)
            for fu in done:
                it = inflight.pop(fu)
                try:
                    r = fu.result()
                except Exception as e:  # a worker died (e.g. killed): harness failure, never a verdict
                    errors.append((it[0]["id"], "worker failed: %r" % (e,)))
                    broken = True
                    continue
                task = it[0]
                if r["error"]:
                    errors.append((task["id"], r["error"]))
                    continue
                for k in agg:
                    agg[k] += r[k]
                outcomes.update(r["outcomes"])
                aborted.update(r["aborted"])
                per_task_paths[task["id"]] += r["paths"]
                per_task_wall[task["id"]] += r.get("wall", 0.0)
                functions.update(r["functions"])
                ifconv = r["ifconv"] or ifconv
                nonexh.extend((task["id"], n) for n in r["nonexhaustive"])
                for f in r["failed"]:
                    failed.append((task, f))
                if r["paths_for_validation"]:
                    pv = r["paths_for_validation"]
                    if len(samples) < 12:
                        inp, oc = pv[0]
                        samples.append({"task": task["id"], "inputs": _compact(inp), "outcome": _jsonable(oc)})
                    B = 200
                    for i in range(0, len(pv), B):
                        vflight.add(
                            plain_pool.submit(_validate_batch, [(task, a, b) for a, b in pv[i : i + B]])
                        )
                elif len(samples) < 12 and r["outcomes"]:
                    samples.append({"task": task["id"], "outcomes": dict(r["outcomes"])})
                nb = min(it[2] * 2, 30.0)
                for st in r["leftover"]:
                    pending.append((task, st, nb, 100000))
            if broken:
                break
            if time.time() > deadline:
                timed_out = True
                break
            if canary is not None and (failed or any(True for fu in vflight if fu.done() and fu.result()[2])):
                # canary runs only need one reproducing witness: stop exploring early
                early = True
                break
        vdeadline = max(deadline, time.time()) + 120
        unvalidated = 0
        for fu in list(vflight):
            try:
                n, bad, viol = fu.result(timeout=max(0.1, vdeadline - time.time()))
            except Exception as e:  # timeout / dead worker
                unvalidated += 1
                if len(errors) < 5:
                    errors.append(("validation", "validation batch failed: %r" % (e,)))
                continue
            validated += n
            mismatches.extend(bad)
            val_violations.extend(viol)
    finally:
        _kill_pool(sym_pool)
    if timed_out:
        nonexh.append(("*", "check budget of %ds exhausted with %d work items left" % (budget, len(pending) + len(inflight))))

    # ---- witnesses: replay each failed obligation on the plain code
    known = [k for k in load_known_findings() if k.get("property") == pid and k.get("status", "known") == "known"]
    violations = []
    known_hits = {}
    inconclusive = []
    engine_mismatch = []
    seen_keys = set()
    todo = []
    for task, (label, inputs, status, extra) in failed:
        if inputs is None:
            inconclusive.append((task["id"], label, status))
            continue
        todo.append((task, label, inputs, extra))
    # de-duplicate identical witnesses
    uniq = {}
    for t in todo:
        k = (t[0]["id"], t[1], json.dumps(_jsonable(t[2]), sort_keys=True), json.dumps(_jsonable(t[3]), sort_keys=True))
        uniq.setdefault(k, t)
    todo = []
    per_label = Counter()
    for t in uniq.values():
        lk = (t[0]["id"], t[1])
        per_label[lk] += 1
        if per_label[lk] <= getattr(mod, "REPLAYS_PER_LABEL", 3):
            todo.append(t)
    cap = getattr(mod, "REPLAY_CAP", 400)
    results = list(plain_pool.map(_replay_one, todo[:cap], chunksize=4)) if todo else []
    _kill_pool(plain_pool)
    for rr in pre_violations:
        val_violations.append(({"id": "precheck", "harness": "precheck", "args": ()}, rr.get("inputs", {}), rr))
    for task, inputs, rr in val_violations:
        todo.insert(0, (task, rr.get("label", "validation"), inputs, rr.get("extra")))
        results.insert(0, dict(rr, reproduced=True))
    for (task, label, inputs, extra), rr in zip(todo[: cap + len(val_violations)], results):
        if not rr.get("reproduced"):
            engine_mismatch.append((task["id"], label, rr.get("detail", "")[:500]))
            continue
        key = rr.get("key", label)
        hit = None
        for k in known:
            if k["key"] == key:
                hit = k
        if hit is not None:
            known_hits.setdefault(key, hit)
            continue
        if key in seen_keys:
            continue
        seen_keys.add(key)
        violations.append({"task": task, "label": label, "inputs": inputs, "extra": extra, "key": key, "detail": rr.get("detail", "")})

    # ---- verdict
    code = 0
    lines = []
    for key, k in sorted(known_hits.items()):
        lines.append("KNOWN-FINDING: property=%s %s" % (pid, k.get("what", key)))
    if violations:
        code = 1
        os.makedirs(os.path.join(VERIF, "replays"), exist_ok=True)
        for i, v in enumerate(violations[:20]):
            h = hashlib.sha1(json.dumps(_jsonable([v["task"]["id"], v["label"], v["inputs"]]), sort_keys=True).encode()).hexdigest()[:10]
            rp = os.path.join(VERIF, "replays", "%s_%s.json" % (pid, h))
            json.dump(
                {
                    "property": pid,
                    "module": modname,
                    "task": _jsonable_task(v["task"]),
                    "label": v["label"],
                    "inputs": v["inputs"],
                    "extra": _jsonable(v["extra"]),
                    "key": v["key"],
                    "detail": v["detail"],
                },
                open(rp, "w"),
                indent=1,
            )
            lines.append("VIOLATION property=%s replay=%s" % (pid, rp))
            lines.append("  key=%s %s" % (v["key"], v["detail"][:300].replace("\n", " | ")))
    exhaustive = not nonexh and not errors and not timed_out and not early
    problems = []
    if errors:
        problems.append("harness errors: %s" % errors[:3])
    if nonexh:
        problems.append("non-exhaustive: %s in tasks %s" % (Counter(n for _, n in nonexh).most_common(3), sorted(set(t for t, _ in nonexh))[:6]))
    if inconclusive:
        problems.append("inconclusive obligations (solver unknown): %s" % inconclusive[:3])
    if engine_mismatch:
        problems.append("ENGINE-MISMATCH witnesses not reproduced on plain code: %s" % engine_mismatch[:3])
    if mismatches:
        problems.append("ENGINE-MISMATCH path predictions differ from plain code: %s" % (mismatches[:2],))
    if len(todo) > cap:
        problems.append("more than %d distinct failing obligations; only the first %d replayed" % (cap, cap))
    min_paths = getattr(mod, "MIN_REACH", None)
    if min_paths is not None:
        r = min_paths(outcomes, per_task_paths, tasks)
        if r:
            problems.append("reachability: %s" % r)
    if code == 0 and problems:
        code = 3
    for p in problems:
        lines.append("INCONCLUSIVE property=%s %s" % (pid, p))

    wall = time.time() - t0
    level = mod.LEVEL
    n_obl = agg["proved"] + agg["proved_norm"]
    cov = {
        "states": max(agg["paths"], 0),
        "transitions": max(agg["decisions"], 0),
        "traces_validated_against_impl": validated,
        "samples": samples or [{"note": "no path samples"}],
        "evaluations": agg["paths"],
        "distinct_nontrivial": len(outcomes) + len(per_task_paths),
        "rule": getattr(mod, "RULE", ""),
        "exhaustive": bool(exhaustive),
        "tasks": len(tasks),
        "paths": agg["paths"],
        "outcome_classes": dict(outcomes.most_common(60)),
        "aborted_paths": dict(aborted),
        "obligations": n_obl,
        "obligations_decided_by_z3_unsat": agg["proved"],
        "obligations_closed_by_normal_form": agg["proved_norm"],
        "queries": agg["queries"],
        "unsat": agg["unsat"],
        "sat": agg["sat"],
        "unknown": agg["unknown"],
        "solver_s": round(agg["solver_s"], 2),
        "functions_encoded": functions,
        "bounds": getattr(mod, "BOUNDS", {}).get(tier, ""),
        "outside_bounds": getattr(mod, "OUTSIDE", ""),
        "stubs": getattr(mod, "STUBS", []),
        "if_converted": ifconv or {},
        "known_findings_matched": sorted(known_hits),
        "path_mismatches": len(mismatches),
        "engine_selfcheck": sc_info,
        "problems": problems,
        "nproc": NPROC,
    }
    if hasattr(mod, "extra_coverage"):
        cov.update(mod.extra_coverage())
    ev = {
        "property_id": pid,
        "tier": tier,
        "seed": int(seed),
        "level": level,
        "coverage": cov,
        "assumptions": list(getattr(mod, "ASSUMPTIONS", [])),
        "wall_s": round(wall, 2),
        "violations": len(violations),
    }
    if not quiet:
        if os.environ.get("VERIF_VERBOSE"):
            left = Counter(it[0]["id"] for it in list(pending) + list(inflight.values()))
            for tid, w in per_task_wall.most_common(40):
                print("  task %-40s paths=%d worker_s=%.1f leftover_items=%d" % (tid, per_task_paths[tid], w, left.get(tid, 0)))
        for l in lines:
            print(l)
        print(
            "%s tier=%s tasks=%d paths=%d queries=%d (unsat %d sat %d unknown %d) obligations=%d validated=%d solver=%.1fs wall=%.1fs exhaustive=%s exit=%d"
            % (pid, tier, len(tasks), agg["paths"], agg["queries"], agg["unsat"], agg["sat"], agg["unknown"], n_obl, validated, agg["solver_s"], wall, exhaustive, code)
        )
    return code, ev, {"violations": violations, "known": sorted(known_hits), "problems": problems, "outcomes": outcomes}


def _kill_pool(pool):
    procs = list(getattr(pool, "_processes", {}).values())
    pool.shutdown(wait=False, cancel_futures=True)
    for p in procs:
        try:
            p.terminate()
        except Exception:
            pass


def _compact(inp):
    """Shorten an inputs dict for the evidence sample (bit atoms -> hex per group)."""
    groups = {}
    plain = {}
    for k, v in inp.items():
        if "." in k and k.rsplit(".", 1)[1].isdigit():
            g, i = k.rsplit(".", 1)
            groups.setdefault(g, {})[int(i)] = v
        else:
            plain[k] = v
    for g, bits in groups.items():
        n = max(bits) + 1
        val = 0
        for i in range(n):
            val = (val << 1) | bits.get(i, 0)
        plain[g] = "0x%x/%d" % (val, n)
    if len(plain) > 40:
        keys = sorted(plain)[:40]
        plain = {k: plain[k] for k in keys}
        plain["..."] = "truncated"
    return plain


def _jsonable_task(t):
    return _jsonable({k: v for k, v in t.items()})


def write_evidence(ev):
    os.makedirs(os.path.join(VERIF, "evidence"), exist_ok=True)
    p = os.path.join(VERIF, "evidence", "%s.json" % ev["property_id"])
    json.dump(ev, open(p, "w"), indent=1, sort_keys=True)
    return p
