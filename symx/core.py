"""
symx.core -- concolic / forking symbolic execution of real Python code over z3 ``Int``.

A harness function ``fn(ctx)`` calls unmodified repository functions with ``SymInt`` /
``SymBool`` objects in place of ``int`` / ``bool``.  Every value carries

* a *linear normal form*  sum(c_i * atom_i) + k  over atoms (inputs and opaque defined
  sub-terms such as ``div``/``mod``/``ite``), used for sound local rewrites and intervals,
* a concrete shadow value ``cv`` under the path's current model (concolic execution).

``bool(SymBool)`` is a branch: the side given by the shadow value is followed, the constraint is
added to the path condition, and (beyond the replayed prefix) the solver is asked whether the
other side is feasible; if so the sibling prefix and a model for it are queued.  Exploration is
depth first over decision prefixes, each path being a fresh execution of the harness.

The *verdict* of every proof obligation (``ctx.prove``) is z3's: ``unsat`` of path-condition and
negated property.  ``sat`` yields a model (candidate witness), ``unknown`` is inconclusive.
"""
from __future__ import annotations

import builtins
import time

import z3

__all__ = [
    "SymInt",
    "SymBool",
    "RawInt",
    "Ctx",
    "Engine",
    "run_path",
    "as_start",
    "PathAbort",
    "EngineError",
    "explore",
    "is_sym",
    "cur",
    "sym_abs",
    "sym_min",
    "sym_max",
    "sym_range",
    "ite",
    "cv_of",
]


class PathAbort(BaseException):
    """Abandon the current path (BaseException so repo ``except Exception`` cannot eat it)."""

    def __init__(self, kind, detail=""):
        BaseException.__init__(self, kind, detail)
        self.kind = kind
        self.detail = detail


class EngineError(BaseException):
    """The engine met something it cannot model soundly: a harness failure, never a verdict."""


_CTX = None

_ZC = z3.main_ctx()
_ZREF = _ZC.ref()
_INTSORT = z3.IntSort()
_NUMS = {}
_CONSTS = {}


def _num(v):
    """Cached z3 integer numeral."""
    r = _NUMS.get(v)
    if r is None:
        r = z3.ArithRef(z3.Z3_mk_numeral(_ZREF, str(v), _INTSORT.ast), _ZC)
        if len(_NUMS) < 100000:
            _NUMS[v] = r
    return r


def _const(name):
    r = _CONSTS.get(name)
    if r is None:
        r = z3.Int(name)
        _CONSTS[name] = r
    return r


def _lin_z(t, k):
    """z3 term for sum(c*atom) + k built with the low-level API (the wrapper API is ~5x slower)."""
    items = sorted(t.items(), key=lambda ac: ac[0].id)
    n = len(items) + (1 if (k != 0 or not items) else 0)
    args = (z3.Ast * n)()
    keep = []
    i = 0
    for a, c in items:
        az = a.z
        if c == 1:
            args[i] = az.ast
        else:
            two = (z3.Ast * 2)()
            cz = _num(c)
            two[0] = cz.ast
            two[1] = az.ast
            m = z3.ArithRef(z3.Z3_mk_mul(_ZREF, 2, two), _ZC)
            keep.append(m)
            args[i] = m.ast
        i += 1
    if k != 0 or not items:
        args[i] = _num(k).ast
    if n == 1:
        if keep:
            return keep[0]
        if items:
            return items[0][0].z
        return _num(k)
    return z3.ArithRef(z3.Z3_mk_add(_ZREF, n, args), _ZC)


def cur():
    if _CTX is None:
        raise EngineError("symbolic value used outside of a path context")
    return _CTX


_INT = (int,)


def is_sym(x):
    return isinstance(x, (SymInt, SymBool, RawInt))


def cv_of(x):
    """Concrete shadow value of x (x itself when concrete)."""
    if isinstance(x, (SymInt, SymBool, RawInt)):
        return x.cv
    return x


class Atom(object):
    __slots__ = ("id", "name", "_z", "zf", "lo", "hi", "cv", "kind", "key", "defn")

    def __init__(self, id, name, zf, lo, hi, cv, kind, key=None):
        self.defn = None
        self.id = id
        self.name = name
        self._z = None
        self.zf = zf  # thunk building the z3 term (lazy: replayed prefixes never need it)
        self.lo = lo
        self.hi = hi
        self.cv = cv
        self.kind = kind
        self.key = key

    @property
    def z(self):
        if self._z is None:
            self._z = self.zf()
            self.zf = None
        return self._z

    def __repr__(self):
        return "<%s=%r>" % (self.name, self.cv)


def _pyfloordiv(a, b):
    return a // b


def _bounds_scale(lo, hi, c):
    if c >= 0:
        return (None if lo is None else lo * c, None if hi is None else hi * c)
    return (None if hi is None else hi * c, None if lo is None else lo * c)


class SymInt(object):
    """Integer in linear normal form over atoms, with a concrete shadow value."""

    __slots__ = ("t", "k", "cv", "_z")

    def __init__(self, t, k, cv):
        self.t = t  # dict Atom -> nonzero int coefficient
        self.k = k
        self.cv = cv
        self._z = None

    # ------------------------------------------------------------------ construction
    @staticmethod
    def mk(t, k):
        """Normalise: drop zero coefficients and atoms pinned to one value."""
        cv = k
        out = None
        for a, c in t.items():
            if c == 0:
                if out is None:
                    out = dict(t)
                del out[a]
            elif a.lo is not None and a.lo == a.hi:
                if out is None:
                    out = dict(t)
                del out[a]
                k += c * a.lo
                cv += c * a.lo
            else:
                cv += c * a.cv
        if out is not None:
            t = out
        if not t:
            return k
        return SymInt(t, k, cv)

    @staticmethod
    def of_atom(a):
        return SymInt({a: 1}, 0, a.cv)

    def key(self):
        return (tuple(sorted((a.id, c) for a, c in self.t.items())), self.k)

    # ------------------------------------------------------------------ z3 / intervals
    def z(self):
        if self._z is None:
            self._z = _lin_z(self.t, self.k)
        return self._z

    def bounds(self):
        lo = hi = self.k
        for a, c in self.t.items():
            l, h = _bounds_scale(a.lo, a.hi, c)
            lo = None if (lo is None or l is None) else lo + l
            hi = None if (hi is None or h is None) else hi + h
            if lo is None and hi is None:
                break
        return lo, hi

    # ------------------------------------------------------------------ arithmetic
    def _add(self, o, sign=1):
        if isinstance(o, SymBool):
            o = o.toint()
        if isinstance(o, SymInt):
            t = dict(self.t)
            for a, c in o.t.items():
                n = t.get(a, 0) + sign * c
                if n:
                    t[a] = n
                else:
                    t.pop(a, None)
            return SymInt.mk(t, self.k + sign * o.k)
        if isinstance(o, bool):
            o = int(o)
        if isinstance(o, int):
            if o == 0:
                return self
            r = SymInt(self.t, self.k + sign * o, self.cv + sign * o)
            return r
        return NotImplemented

    def __add__(self, o):
        return self._add(o, 1)

    __radd__ = __add__

    def __sub__(self, o):
        return self._add(o, -1)

    def __rsub__(self, o):
        n = self.__neg__()
        return n._add(o, 1) if isinstance(n, SymInt) else n + o

    def __neg__(self):
        return SymInt({a: -c for a, c in self.t.items()}, -self.k, -self.cv)

    def __pos__(self):
        return self

    def __invert__(self):
        return (-self) - 1

    def _scale(self, c):
        if c == 0:
            return 0
        if c == 1:
            return self
        return SymInt({a: c * k for a, k in self.t.items()}, self.k * c, self.cv * c)

    def __mul__(self, o):
        if isinstance(o, SymBool):
            o = o.toint()
        if isinstance(o, bool):
            o = int(o)
        if isinstance(o, int):
            return self._scale(o)
        if isinstance(o, SymInt):
            return cur().def_mul(self, o)
        return NotImplemented

    __rmul__ = __mul__

    def __floordiv__(self, o):
        if isinstance(o, SymBool):
            o = o.toint()
        if isinstance(o, int) and not isinstance(o, bool):
            return cur().div_const(self, o)
        if isinstance(o, SymInt):
            return cur().def_div(self, o)
        return NotImplemented

    def __rfloordiv__(self, o):
        if isinstance(o, int):
            return cur().def_div(o, self)
        return NotImplemented

    def __mod__(self, o):
        if isinstance(o, int) and not isinstance(o, bool):
            return cur().mod_const(self, o)
        if isinstance(o, SymInt):
            return cur().def_mod(self, o)
        return NotImplemented

    def __rmod__(self, o):
        if isinstance(o, int):
            return cur().def_mod(o, self)
        return NotImplemented

    def __divmod__(self, o):
        return (self // o, self % o)

    # Floats are not modelled.  A float taken from a symbolic integer continues the path on the path's representative
    # value only and marks the path non-exhaustive: the check can then still find (and replay) a violation on the
    # representative, but can never report success (exit 3 "inconclusive" unless a violation reproduces).
    def _float_escape(self, what):
        c = cur()
        c.nonexhaustive = "%s of a symbolic integer: floats are not modelled, path continued on its representative value only" % what
        return self.cv

    def __truediv__(self, o):
        return self._float_escape("true division") / cv_of(o)

    def __rtruediv__(self, o):
        return cv_of(o) / self._float_escape("true division")

    def __float__(self):
        return float(self._float_escape("float()"))

    def __lshift__(self, o):
        if is_sym(o):
            o = cur().concretize(o)
        if o < 0:
            raise ValueError("negative shift count")
        return self._scale(1 << o)

    def __rlshift__(self, o):
        s = cur().concretize(self)
        return o << s

    def __rshift__(self, o):
        if is_sym(o):
            o = cur().concretize(o)
        if o < 0:
            raise ValueError("negative shift count")
        return cur().div_const(self, 1 << o)

    def __rrshift__(self, o):
        s = cur().concretize(self)
        return o >> s

    def __and__(self, o):
        if isinstance(o, SymBool):
            o = o.toint()
        return cur().bit_and(self, o)

    __rand__ = __and__

    def __or__(self, o):
        if isinstance(o, SymBool):
            o = o.toint()
        # x | y == x + y - (x & y) for all integers
        a = cur().bit_and(self, o)
        return self + o - a

    __ror__ = __or__

    def __xor__(self, o):
        if isinstance(o, SymBool):
            o = o.toint()
        # x ^ y == x + y - 2*(x & y)
        a = cur().bit_and(self, o)
        return self + o - 2 * a

    __rxor__ = __xor__

    def __pow__(self, o, mod=None):
        if mod is not None:
            raise EngineError("three argument pow on symbolic integer")
        if is_sym(o):
            o = cur().concretize(o)
        if o < 0:
            raise EngineError("negative power of symbolic integer")
        r = 1
        for _ in builtins.range(o):
            r = r * self
        return r

    def __rpow__(self, o):
        e = cur().concretize(self)
        return o ** e

    def __abs__(self):
        return sym_abs(self)

    def bit_length(self):
        return SymBitLength(self)

    # ------------------------------------------------------------------ comparisons
    def _cmp(self, o, op):
        if isinstance(o, SymBool):
            o = o.toint()
        if isinstance(o, bool):
            o = int(o)
        if not isinstance(o, (int, SymInt)):
            return NotImplemented
        d = self - o
        return compare0(d, op)

    def __lt__(self, o):
        return self._cmp(o, "<")

    def __le__(self, o):
        return self._cmp(o, "<=")

    def __gt__(self, o):
        return self._cmp(o, ">")

    def __ge__(self, o):
        return self._cmp(o, ">=")

    def __eq__(self, o):
        return self._cmp(o, "==")

    def __ne__(self, o):
        return self._cmp(o, "!=")

    # ------------------------------------------------------------------ sinks
    def __bool__(self):
        return bool(compare0(self, "!="))

    def __index__(self):
        return cur().concretize(self)

    __int__ = __index__

    def __hash__(self):
        return hash(cur().concretize(self))

    def __format__(self, spec):
        c = cur()
        if c.format_shadow:
            # text rendering is output, not control flow: render the path's representative value without forking
            # (stated under-approximation, enabled per check by ENGINE_OPTS["format_shadow"])
            c.notes["formatted_by_shadow"] = c.notes.get("formatted_by_shadow", 0) + 1
            return format(self.cv, spec)
        return format(c.concretize(self), spec)

    def __repr__(self):
        try:
            c = cur()
        except BaseException:
            c = None
        if c is not None and getattr(c, "format_shadow", False):
            return repr(self.cv)
        return "<SymInt cv=%r %d terms>" % (self.cv, len(self.t))

    __str__ = __repr__


class SymBitLength(object):
    """Result of SymInt.bit_length(): comparisons with constants become comparisons on |x|
    (no fork); any other use concretises (one fork per feasible length class)."""

    __slots__ = ("x", "_v")

    def __init__(self, x):
        self.x = x
        self._v = None

    def _abs(self):
        return sym_abs(self.x)

    def concrete(self):
        if self._v is None:
            self._v = cur().bit_length(self.x)
        return self._v

    # bit_length(x) > n  <=>  |x| >= 2**n   (n >= 0)
    def __gt__(self, n):
        if isinstance(n, int) and n >= 0 and self._v is None:
            return self._abs() >= (1 << n)
        return self.concrete() > n

    def __ge__(self, n):
        if isinstance(n, int) and n >= 1 and self._v is None:
            return self._abs() >= (1 << (n - 1))
        return self.concrete() >= n

    def __le__(self, n):
        if isinstance(n, int) and n >= 0 and self._v is None:
            return self._abs() < (1 << n)
        return self.concrete() <= n

    def __lt__(self, n):
        if isinstance(n, int) and n >= 1 and self._v is None:
            return self._abs() < (1 << (n - 1))
        return self.concrete() < n

    def __eq__(self, n):
        return self.concrete() == n

    def __ne__(self, n):
        return self.concrete() != n

    def __hash__(self):
        return hash(self.concrete())

    def __index__(self):
        return self.concrete()

    __int__ = __index__

    def __add__(self, o):
        return self.concrete() + o

    __radd__ = __add__

    def __sub__(self, o):
        return self.concrete() - o

    def __rsub__(self, o):
        return o - self.concrete()

    def __mul__(self, o):
        return self.concrete() * o

    __rmul__ = __mul__

    def __format__(self, spec):
        return format(self.concrete(), spec)

    def __repr__(self):
        return "<SymBitLength of %r>" % (self.x,)


def _ite_arms(x):
    """(c, a, b) if x is exactly one if-then-else atom (scaled arms returned), else None."""
    if isinstance(x, SymInt) and len(x.t) == 1:
        ((at, co),) = x.t.items()
        if at.defn is not None and at.defn[0] == "ite":
            _, c, a, b = at.defn
            return c, a * co + x.k, b * co + x.k
    return None


def compare0(d, op):
    """d <op> 0 for d int or SymInt; returns bool or SymBool."""
    if isinstance(d, int):
        if op == "<":
            return d < 0
        if op == "<=":
            return d <= 0
        if op == ">":
            return d > 0
        if op == ">=":
            return d >= 0
        if op == "==":
            return d == 0
        return d != 0
    lo, hi = d.bounds()
    if op == "<":
        if hi is not None and hi < 0:
            return True
        if lo is not None and lo >= 0:
            return False
    elif op == "<=":
        if hi is not None and hi <= 0:
            return True
        if lo is not None and lo > 0:
            return False
    elif op == ">":
        if lo is not None and lo > 0:
            return True
        if hi is not None and hi <= 0:
            return False
    elif op == ">=":
        if lo is not None and lo >= 0:
            return True
        if hi is not None and hi < 0:
            return False
    elif op == "==":
        if (lo is not None and lo > 0) or (hi is not None and hi < 0):
            return False
    else:
        if (lo is not None and lo > 0) or (hi is not None and hi < 0):
            return True
    arms = _ite_arms(d)
    if arms is not None:
        # ite(c, a, b) <op> 0 when both arms are decided: the condition itself (or a constant)
        c, a, b = arms
        ra, rb = compare0(a, op), compare0(b, op)
        if isinstance(ra, bool) and isinstance(rb, bool):
            if ra == rb:
                return ra
            return c if ra else c.negate()
    cur().n_cmp += 1
    return SymBool.cmp(d, op)


_NEG = {"<": ">=", "<=": ">", ">": "<=", ">=": "<", "==": "!=", "!=": "=="}


class SymBool(object):
    """Boolean over the path's atoms.  Either a comparison ``d <op> 0`` or a z3 formula."""

    __slots__ = ("d", "op", "_z", "cv", "_int")

    def __init__(self, d, op, z, cv):
        self.d = d
        self.op = op
        self._z = z
        self.cv = cv
        self._int = None

    @staticmethod
    def cmp(d, op):
        v = d.cv
        cv = (
            v < 0
            if op == "<"
            else v <= 0
            if op == "<="
            else v > 0
            if op == ">"
            else v >= 0
            if op == ">="
            else v == 0
            if op == "=="
            else v != 0
        )
        return SymBool(d, op, None, cv)

    @staticmethod
    def formula(z, cv):
        return SymBool(None, None, z, cv)

    def z(self):
        if self._z is None:
            d, op = self.d, self.op
            # move the constant to the right-hand side: nicer terms for the solver
            lhs = SymInt(d.t, 0, 0).z()
            rhs = _num(-d.k)
            if op == "<":
                self._z = lhs < rhs
            elif op == "<=":
                self._z = lhs <= rhs
            elif op == ">":
                self._z = lhs > rhs
            elif op == ">=":
                self._z = lhs >= rhs
            elif op == "==":
                self._z = lhs == rhs
            else:
                self._z = lhs != rhs
        return self._z

    def negate(self):
        if self.op is not None:
            return SymBool(self.d, _NEG[self.op], None, not self.cv)
        return SymBool(None, None, z3.Not(self._z), not self.cv)

    def toint(self):
        """0/1 integer view."""
        if self._int is None:
            r = None
            if self.op in ("==", "!=") and len(self.d.t) == 1:
                ((a, c),) = self.d.t.items()
                if a.lo == 0 and a.hi == 1:
                    # c*a + k ==/!= 0 with a in {0,1}
                    k = self.d.k
                    if k == 0:  # a == 0
                        r = 1 - SymInt.of_atom(a) if self.op == "==" else SymInt.of_atom(a)
                    elif k == -c:  # a == 1
                        r = SymInt.of_atom(a) if self.op == "==" else 1 - SymInt.of_atom(a)
            if r is None:
                r = cur().def_ite(self, 1, 0)
            self._int = r
        return self._int

    # truth value: a branch
    def __bool__(self):
        return cur().branch(self)

    def __index__(self):
        return int(bool(self))

    __int__ = __index__

    def __hash__(self):
        return hash(bool(self))

    def __invert__(self):
        return ~self.toint()

    def __and__(self, o):
        if isinstance(o, bool):
            return self if o else False
        if isinstance(o, SymBool):
            return SymBool.formula(z3.And(self.z(), o.z()), self.cv and o.cv)
        return self.toint() & o

    __rand__ = __and__

    def __or__(self, o):
        if isinstance(o, bool):
            return True if o else self
        if isinstance(o, SymBool):
            return SymBool.formula(z3.Or(self.z(), o.z()), self.cv or o.cv)
        return self.toint() | o

    __ror__ = __or__

    def __xor__(self, o):
        return self.toint() ^ o

    __rxor__ = __xor__

    def __add__(self, o):
        return self.toint() + o

    __radd__ = __add__

    def __sub__(self, o):
        return self.toint() - o

    def __rsub__(self, o):
        return o - self.toint()

    def __mul__(self, o):
        return self.toint() * o

    __rmul__ = __mul__

    def __neg__(self):
        return -self.toint()

    def __lshift__(self, o):
        return self.toint() << o

    def __eq__(self, o):
        if isinstance(o, bool):
            return self if o else self.negate()
        if isinstance(o, SymBool):
            return SymBool.formula(self.z() == o.z(), self.cv == o.cv)
        if isinstance(o, (int, SymInt)):
            return self.toint() == o
        return NotImplemented

    def __ne__(self, o):
        r = self.__eq__(o)
        if r is NotImplemented:
            return r
        if isinstance(r, SymBool):
            return r.negate()
        return not r

    def __lt__(self, o):
        return self.toint() < o

    def __le__(self, o):
        return self.toint() <= o

    def __gt__(self, o):
        return self.toint() > o

    def __ge__(self, o):
        return self.toint() >= o

    def __format__(self, spec):
        return format(bool(self), spec)

    def __repr__(self):
        return "<SymBool cv=%r>" % (self.cv,)



# ---------------------------------------------------------------------- raw (un-normalised) integers
class RawInt(object):
    """Integer kept as a plain z3 term (no normal form, no intervals) with a concrete shadow value.

    Used to let z3 itself decide obligations that the linear normal form would close syntactically:
    the same repository code is run on RawInt inputs and the resulting terms are handed to the solver
    as they are (shared sub-terms are the same z3 objects)."""

    __slots__ = ("z_", "cv")

    def __init__(self, z, cv):
        self.z_ = z
        self.cv = cv

    def z(self):
        return self.z_

    @staticmethod
    def _lift(o):
        if isinstance(o, RawInt):
            return o.z_, o.cv
        if isinstance(o, bool):
            o = int(o)
        if isinstance(o, int):
            return _num(o), o
        if isinstance(o, SymInt):
            return o.z(), o.cv
        return None, None

    def _bin(self, o, zop, cop, swap=False):
        z, v = RawInt._lift(o)
        if z is None:
            return NotImplemented
        if swap:
            return RawInt(z3.simplify(zop(z, self.z_)), cop(v, self.cv))
        return RawInt(z3.simplify(zop(self.z_, z)), cop(self.cv, v))

    def __add__(self, o):
        if isinstance(o, int) and o == 0:
            return self
        return self._bin(o, lambda a, b: a + b, lambda a, b: a + b)

    __radd__ = __add__

    def __sub__(self, o):
        return self._bin(o, lambda a, b: a - b, lambda a, b: a - b)

    def __rsub__(self, o):
        return self._bin(o, lambda a, b: a - b, lambda a, b: a - b, swap=True)

    def __mul__(self, o):
        if isinstance(o, int) and o == 1:
            return self
        return self._bin(o, lambda a, b: a * b, lambda a, b: a * b)

    __rmul__ = __mul__

    def __neg__(self):
        return RawInt(-self.z_, -self.cv)

    def __pos__(self):
        return self

    def __floordiv__(self, o):
        if not isinstance(o, int) or o <= 0:
            raise EngineError("RawInt division only by positive constants")
        return RawInt(self.z_ / _num(o), self.cv // o)

    def __mod__(self, o):
        if not isinstance(o, int) or o <= 0:
            raise EngineError("RawInt modulo only by positive constants")
        return RawInt(self.z_ % _num(o), self.cv % o)

    def __lshift__(self, k):
        return RawInt(self.z_ * _num(1 << k), self.cv << k)

    def __rshift__(self, k):
        return RawInt(self.z_ / _num(1 << k), self.cv >> k)

    def __and__(self, m):
        if isinstance(m, int) and m >= 0 and (m & (m + 1)) == 0:
            return RawInt(self.z_ % _num(m + 1), self.cv & m)
        raise EngineError("RawInt & only with 2^k-1 masks")

    __rand__ = __and__

    def __abs__(self):
        return RawInt(z3.If(self.z_ >= 0, self.z_, -self.z_), builtins.abs(self.cv))

    def _cmp(self, o, zop, cop):
        z, v = RawInt._lift(o)
        if z is None:
            return NotImplemented
        return SymBool.formula(zop(self.z_, z), cop(self.cv, v))

    def __lt__(self, o):
        return self._cmp(o, lambda a, b: a < b, lambda a, b: a < b)

    def __le__(self, o):
        return self._cmp(o, lambda a, b: a <= b, lambda a, b: a <= b)

    def __gt__(self, o):
        return self._cmp(o, lambda a, b: a > b, lambda a, b: a > b)

    def __ge__(self, o):
        return self._cmp(o, lambda a, b: a >= b, lambda a, b: a >= b)

    def __eq__(self, o):
        return self._cmp(o, lambda a, b: a == b, lambda a, b: a == b)

    def __ne__(self, o):
        return self._cmp(o, lambda a, b: a != b, lambda a, b: a != b)

    def __bool__(self):
        return bool(self != 0)

    def __hash__(self):
        raise EngineError("RawInt is not hashable")

    def __index__(self):
        raise EngineError("RawInt used as an index")

    def __repr__(self):
        return "<RawInt cv=%r>" % (self.cv,)


# ---------------------------------------------------------------------- helpers usable by harnesses
def ite(c, a, b):
    """if-then-else merge without forking (c may be concrete)."""
    if isinstance(c, SymInt):
        c = compare0(c, "!=")
    if not isinstance(c, SymBool):
        return a if c else b
    return cur().def_ite(c, a, b)


def sym_abs(x):
    if isinstance(x, SymBool):
        x = x.toint()
    if not isinstance(x, SymInt):
        return builtins.abs(x)
    lo, hi = x.bounds()
    if lo is not None and lo >= 0:
        return x
    if hi is not None and hi <= 0:
        return -x
    arms = _ite_arms(x)
    if arms is not None:
        c, a, b = arms
        # |ite(c, a, b)| with a == -b  is |a|
        s = a + b
        if isinstance(s, int) and s == 0:
            return sym_abs(a)
        return cur().def_ite(c, sym_abs(a), sym_abs(b))
    return cur().def_abs(x)


def _minmax2(a, b, want_min):
    if isinstance(a, SymBool):
        a = a.toint()
    if isinstance(b, SymBool):
        b = b.toint()
    if not (isinstance(a, SymInt) or isinstance(b, SymInt)):
        return (builtins.min if want_min else builtins.max)(a, b)
    c = compare0(a - b, "<=")  # a <= b
    if c is True:
        return a if want_min else b
    if c is False:
        return b if want_min else a
    return cur().def_minmax(a, b, want_min, c)


def _minmax(args, kw, want_min):
    name = builtins.min if want_min else builtins.max
    if kw:
        return name(*args, **kw)
    if len(args) == 1:
        seq = list(args[0])
    else:
        seq = list(args)
    if not any(is_sym(x) for x in seq):
        return name(seq)
    if not seq:
        return name(seq)
    r = seq[0]
    for x in seq[1:]:
        r = _minmax2(r, x, want_min)
    return r


def sym_min(*args, **kw):
    return _minmax(args, kw, True)


def sym_max(*args, **kw):
    return _minmax(args, kw, False)


def _sym_range_gen(start, stop, step):
    i = start
    if step > 0:
        while i < stop:
            yield i
            i = i + step
    else:
        while i > stop:
            yield i
            i = i + step


def sym_range(*args):
    if not any(is_sym(a) for a in args):
        return builtins.range(*args)
    if len(args) == 1:
        start, stop, step = 0, args[0], 1
    elif len(args) == 2:
        start, stop, step = args[0], args[1], 1
    else:
        start, stop, step = args
    if is_sym(step):
        step = cur().concretize(step)
    if step == 0:
        raise ValueError("range() arg 3 must not be zero")
    return _sym_range_gen(start, stop, step)


# ---------------------------------------------------------------------- engine (shared solver)
class Engine(object):
    """One incremental z3 solver shared by successive paths of a depth-first exploration.

    The solver keeps one scope per decision of the *current* path.  The next path (usually the
    deepest sibling) shares a prefix with it: the solver is popped back to the common prefix and
    the replay of that part of the path needs no z3 work at all.
    """

    def __init__(self, opts=None):
        self.opts = dict(opts or {})
        self.solver = z3.Solver()
        self.solver.set("timeout", int(self.opts.get("query_timeout_ms", 20000)))
        self.sdec = []  # decision entries asserted, one solver scope each
        self.scope_inputs = [[]]  # names of inputs whose bounds were asserted in each scope
        self.asserted_inputs = set()
        self.n_queries = self.n_unsat = self.n_sat = self.n_unknown = 0
        self.solver_s = 0.0

    def sync(self, prefix):
        """Pop to the longest common prefix of the solver state and ``prefix``; return its length."""
        c = 0
        n = builtins.min(len(self.sdec), len(prefix))
        while c < n and self.sdec[c] == prefix[c]:
            c += 1
        drop = len(self.sdec) - c
        if drop:
            self.solver.pop(drop)
            del self.sdec[c:]
            for names in self.scope_inputs[c + 1 :]:
                for nm in names:
                    self.asserted_inputs.discard(nm)
            del self.scope_inputs[c + 1 :]
        return c

    def assert_decision(self, ent, formula):
        self.solver.push()
        self.solver.add(formula)
        self.sdec.append(ent)
        self.scope_inputs.append([])

    def assert_input(self, name, formula):
        if name in self.asserted_inputs:
            return
        self.solver.add(formula)
        self.asserted_inputs.add(name)
        self.scope_inputs[-1].append(name)

    def check(self, extra):
        t0 = time.time()
        self.solver.push()
        self.solver.add(extra)
        r = self.solver.check()
        if r == z3.unknown:
            # timeouts are wall-clock: retry once with six times the budget before calling the query inconclusive
            base = int(self.opts.get("query_timeout_ms", 20000))
            self.solver.set("timeout", base * 6)
            r = self.solver.check()
            self.solver.set("timeout", base)
            self.n_retried = getattr(self, "n_retried", 0) + 1
        m = None
        if r == z3.sat:
            m = self.solver.model()
        self.solver.pop()
        self.solver_s += time.time() - t0
        self.n_queries += 1
        if r == z3.sat:
            self.n_sat += 1
        elif r == z3.unsat:
            self.n_unsat += 1
        else:
            self.n_unknown += 1
        return r, m


# ---------------------------------------------------------------------- path context
class Ctx(object):
    """One path: replays ``prefix`` decisions under ``inputs`` (name -> value), then explores."""

    def __init__(self, engine, prefix=(), inputs=None):
        opts = engine.opts
        self.engine = engine
        self.prefix = list(prefix)
        self.inputs = dict(inputs or {})
        self.synced = engine.sync(self.prefix)  # decisions below this index are already asserted
        self.decisions = []
        self.pending = []  # sibling (prefix, inputs) found on this path
        self.atoms = []
        self.input_atoms = {}
        self.interned = {}
        self.blasted = {}
        self.decided = {}
        self.max_decisions = opts.get("max_decisions", 4000)
        self.format_shadow = bool(opts.get("format_shadow", False))
        self.n_cmp = 0
        self.proved = 0
        self.proved_norm = 0  # decided by normalisation to a concrete True
        self.failed = []  # (label, witness inputs or None, status, extra)
        self.notes = {}
        self.nonexhaustive = None
        self._q0 = (engine.n_queries, engine.n_unsat, engine.n_sat, engine.n_unknown, engine.solver_s)

    # ------------------------------------------------------------------ inputs
    def _new_atom(self, name, zf, lo, hi, cv, kind, key=None):
        a = Atom(len(self.atoms), name, zf, lo, hi, cv, kind, key)
        self.atoms.append(a)
        return a

    def sym_int(self, name, lo=None, hi=None, default=None):
        """Fresh symbolic integer input in [lo, hi] (None = unbounded)."""
        if name in self.input_atoms:
            raise EngineError("duplicate input name %r" % (name,))
        if name in self.inputs:
            v = self.inputs[name]
        elif default is not None:
            v = default
        else:
            v = 0
        if lo is not None and v < lo:
            v = lo
        if hi is not None and v > hi:
            v = hi
        z = _const(name)
        a = self._new_atom(name, None, lo, hi, v, "in")
        a._z = z
        self.input_atoms[name] = a
        eng = self.engine
        if name not in eng.asserted_inputs and (lo is not None or hi is not None):
            if lo is not None and hi is not None:
                f = z3.And(z >= lo, z <= hi)
            elif lo is not None:
                f = z >= lo
            else:
                f = z <= hi
            self._flush()
            eng.assert_input(name, f)
        return SymInt.mk({a: 1}, 0)

    def sym_bits(self, name, nbits, default=0):
        """Unsigned ``nbits``-bit value as a sum of 0/1 atoms (MSB first: name.0 ...)."""
        t = {}
        k = 0
        for i in builtins.range(nbits):
            w = nbits - 1 - i
            b = self.sym_int("%s.%d" % (name, i), 0, 1, default=(default >> w) & 1)
            if isinstance(b, SymInt):
                ((a, _),) = b.t.items()
                t[a] = 1 << w
            else:
                k += int(b) << w
        return SymInt.mk(t, k)

    def raw_view(self, x):
        """The same value as an un-normalised RawInt (shares the z3 constants of x)."""
        if isinstance(x, SymInt):
            return RawInt(x.z(), x.cv)
        return x

    def sym_bool(self, name):
        b = self.sym_int(name, 0, 1)
        return compare0(b - 1, "==") if isinstance(b, SymInt) else (b == 1)

    def model_inputs(self):
        """Concrete values of all input atoms under the current model."""
        return {n: a.cv for n, a in self.input_atoms.items()}

    # ------------------------------------------------------------------ defined atoms
    def _intern(self, key, mk):
        a = self.interned.get(key)
        if a is None:
            a = mk()
            a.key = key
            self.interned[key] = a
        return a

    def _blast(self, x, m):
        """Bit-blast on demand: when a shift/mask by a power of two meets atoms that are bounded in [0, 2^K), K <= 64,
        but not bit-decomposed, each such atom is replaced by sum(2^i * b_i) over fresh 0/1 atoms (their defining
        equality is added to the path condition).  Returns the rewritten x."""
        if m & (m - 1) or not isinstance(x, SymInt):
            return x
        out = None
        for a, c in list(x.t.items()):
            if a.lo is None or a.hi is None or a.lo < 0 or a.hi <= 1 or a.hi >= (1 << 64):
                continue
            bits = self.blasted.get(a)
            if bits is None:
                K = a.hi.bit_length()
                t = {}
                zsum = []
                for i in builtins.range(K):
                    nm = "%s~b%d" % (a.name, i)
                    b = self._new_atom(nm, None, 0, 1, (a.cv >> i) & 1, "blast")
                    b._z = _const(nm)
                    t[b] = 1 << i
                bits = SymInt(t, 0, a.cv)
                self.blasted[a] = bits
                zb = [bb._z for bb in t]
                f = z3.And([z3.And(v >= 0, v <= 1) for v in zb] + [a.z == bits.z()])
                self.engine.assert_input("blast:" + a.name, f)
            if out is None:
                out = SymInt(dict(x.t), x.k, x.cv)
            del out.t[a]
            out = out + bits * c
            if not isinstance(out, SymInt):
                return out
        return x if out is None else out

    def div_const(self, x, m):
        """floor(x / m), m a concrete non-zero int."""
        if m == 0:
            raise ZeroDivisionError("integer division or modulo by zero")
        if m < 0:
            return self.div_const(-x, -m)
        if m == 1:
            return x
        if not isinstance(x, SymInt):
            return x // m
        D, R = self._split(x, m)
        rlo, rhi = _b(R)
        if rlo is not None and rhi is not None and rlo // m == rhi // m:
            return D + (rlo // m)
        xb = self._blast(x, m)
        if xb is not x:
            return self.div_const(xb, m)
        key = ("div", _key(R), m)

        def mk():
            return self._new_atom(
                "div%d" % len(self.atoms),
                lambda: _z(R) / _num(m),
                None if rlo is None else rlo // m,
                None if rhi is None else rhi // m,
                R.cv // m,
                "def",
            )

        a = self._intern(key, mk)
        return D + SymInt.mk({a: 1}, 0)

    def mod_const(self, x, m):
        if m == 0:
            raise ZeroDivisionError("integer division or modulo by zero")
        if m < 0:
            return -self.mod_const(-x, -m)
        if m == 1:
            return 0
        if not isinstance(x, SymInt):
            return x % m
        _, R = self._split(x, m)
        rlo, rhi = _b(R)
        if rlo is not None and rhi is not None and rlo // m == rhi // m:
            return R - m * (rlo // m)
        xb = self._blast(x, m)
        if xb is not x:
            return self.mod_const(xb, m)
        key = ("mod", _key(R), m)

        def mk():
            return self._new_atom(
                "mod%d" % len(self.atoms), lambda: _z(R) % _num(m), 0, m - 1, R.cv % m, "def"
            )

        a = self._intern(key, mk)
        return SymInt.mk({a: 1}, 0)

    @staticmethod
    def _split(x, m):
        """x = m*D + R with R's coefficients reduced modulo m."""
        dt, rt = {}, {}
        for a, c in x.t.items():
            q, r = divmod(c, m)
            if q:
                dt[a] = q
            if r:
                rt[a] = r
        qk, rk = divmod(x.k, m)
        return SymInt.mk(dt, qk), SymInt.mk(rt, rk)

    def def_mul(self, x, y):
        kx, ky = _key(x), _key(y)
        if kx > ky:
            x, y, kx, ky = y, x, ky, kx
        key = ("mul", kx, ky)

        def mk():
            xl, xh = x.bounds()
            yl, yh = y.bounds()
            lo = hi = None
            if None not in (xl, xh, yl, yh):
                c = [xl * yl, xl * yh, xh * yl, xh * yh]
                lo, hi = builtins.min(c), builtins.max(c)
            elif xl is not None and yl is not None and xl >= 0 and yl >= 0:
                lo = xl * yl
            return self._new_atom(
                "mul%d" % len(self.atoms), lambda: x.z() * y.z(), lo, hi, x.cv * y.cv, "def"
            )

        return SymInt.mk({self._intern(key, mk): 1}, 0)

    def _positive(self, y, what):
        if isinstance(y, int):
            if y <= 0:
                raise EngineError("%s by non-positive constant not modelled" % what)
            return
        lo, _ = y.bounds()
        if lo is None or lo <= 0:
            # fork on sign: only the positive side is modelled
            if not bool(compare0(y, ">")):
                if cv_of(y) == 0:
                    raise ZeroDivisionError("integer division or modulo by zero")
                raise EngineError("%s by a negative symbolic value not modelled" % what)

    def def_div(self, x, y):
        self._positive(y, "division")
        key = ("sdiv", _key(x), _key(y))

        def mk():
            xl, xh = _b(x)
            lo = hi = None
            if xl is not None and xl >= 0:
                lo, hi = 0, xh
            return self._new_atom(
                "sdiv%d" % len(self.atoms),
                lambda: _z(x) / _z(y),
                lo,
                hi,
                cv_of(x) // cv_of(y),
                "def",
            )

        return SymInt.mk({self._intern(key, mk): 1}, 0)

    def def_mod(self, x, y):
        self._positive(y, "modulo")
        key = ("smod", _key(x), _key(y))

        def mk():
            _, yh = _b(y)
            return self._new_atom(
                "smod%d" % len(self.atoms),
                lambda: _z(x) % _z(y),
                0,
                None if yh is None else yh - 1,
                cv_of(x) % cv_of(y),
                "def",
            )

        return SymInt.mk({self._intern(key, mk): 1}, 0)

    def def_ite(self, c, a, b):
        if isinstance(a, SymBool):
            a = a.toint()
        if isinstance(b, SymBool):
            b = b.toint()
        if isinstance(a, bool):
            a = int(a)
        if isinstance(b, bool):
            b = int(b)
        if not (isinstance(a, (int, SymInt)) and isinstance(b, (int, SymInt))):
            # non-integer arms: fork
            return a if bool(c) else b
        d = a - b
        if isinstance(d, int):
            if d == 0:
                return b
            # b + d*[c] : linear when [c] is itself a 0/1 atom
            if c.op in ("==", "!=") and len(c.d.t) == 1:
                ((at, _),) = c.d.t.items()
                if at.lo == 0 and at.hi == 1:
                    return b + d * c.toint()
        key = ("ite", _zkey(c), _key(a), _key(b))

        def mk():
            al, ah = _b(a)
            bl, bh = _b(b)
            lo = None if (al is None or bl is None) else builtins.min(al, bl)
            hi = None if (ah is None or bh is None) else builtins.max(ah, bh)
            return self._new_atom(
                "ite%d" % len(self.atoms),
                lambda: z3.If(c.z(), _z(a), _z(b)),
                lo,
                hi,
                cv_of(a) if c.cv else cv_of(b),
                "def",
            )

        at = self._intern(key, mk)
        if at.defn is None:
            at.defn = ("ite", c, a, b)
        return SymInt.mk({at: 1}, 0)

    def def_abs(self, x):
        key = ("abs", _key(x))

        def mk():
            lo, hi = x.bounds()
            m = None if (lo is None or hi is None) else builtins.max(-lo, hi)

            def zf():
                zx = x.z()
                return z3.If(zx >= 0, zx, -zx)

            return self._new_atom("abs%d" % len(self.atoms), zf, 0, m, builtins.abs(x.cv), "def")

        return SymInt.mk({self._intern(key, mk): 1}, 0)

    def def_minmax(self, a, b, want_min, c):
        key = ("min" if want_min else "max", _key(a), _key(b))

        def mk():
            al, ah = _b(a)
            bl, bh = _b(b)
            f = builtins.min if want_min else builtins.max
            if want_min:
                lo = None if (al is None or bl is None) else f(al, bl)
                hi = ah if bh is None else bh if ah is None else f(ah, bh)
            else:
                hi = None if (ah is None or bh is None) else f(ah, bh)
                lo = al if bl is None else bl if al is None else f(al, bl)

            def zf():
                za, zb = _z(a), _z(b)
                return z3.If(za <= zb, za, zb) if want_min else z3.If(za <= zb, zb, za)

            return self._new_atom("mm%d" % len(self.atoms), zf, lo, hi, f(cv_of(a), cv_of(b)), "def")

        return SymInt.mk({self._intern(key, mk): 1}, 0)

    def bit_and(self, x, y):
        """x & y.  Supported: concrete mask; disjoint bit ranges; otherwise EngineError."""
        if isinstance(x, int) and isinstance(y, int):
            return x & y
        if isinstance(y, SymInt) and isinstance(x, int):
            x, y = y, x
        if isinstance(y, int):
            mask = y
            if mask == 0:
                return 0
            if mask == -1:
                return x
            if mask < 0:
                return x - self.bit_and(x, ~mask)
            # decompose mask into runs of ones [i, j)
            r = 0
            i = 0
            while (mask >> i) != 0:
                if (mask >> i) & 1:
                    j = i
                    while (mask >> j) & 1:
                        j += 1
                    r = r + (self.mod_const(x, 1 << j) - self.mod_const(x, 1 << i))
                    i = j
                else:
                    i += 1
            return r
        # both symbolic
        for a, b in ((x, y), (y, x)):
            bl, bh = b.bounds()
            if bl is not None and bl >= 0 and bh is not None:
                k = bh.bit_length()
                m = 1 << k
                if a.k % m == 0 and all(c % m == 0 for c in a.t.values()):
                    return 0
        xl, xh = x.bounds()
        yl, yh = y.bounds()
        if xl == 0 and xh == 1 and yl == 0 and yh == 1:
            return _minmax2(x, y, True)
        raise EngineError("bitwise and of two symbolic integers with overlapping bit ranges")

    def _class_cond(self, ax, n):
        if n == 0:
            return compare0(ax, "==") if is_sym(ax) else (ax == 0)
        lo = ax >= (1 << (n - 1))
        hi = ax <= ((1 << n) - 1)
        if lo is True:
            return hi
        if hi is True:
            return lo
        if lo is False or hi is False:
            return False
        return SymBool.formula(z3.And(lo.z(), hi.z()), lo.cv and hi.cv)

    def bit_length(self, x):
        """Concrete bit length of |x|: one fork per feasible length class (payload = the class)."""
        while True:
            ax = sym_abs(x)
            if isinstance(ax, SymInt):
                ax = SymInt.mk(ax.t, ax.k)
            if not is_sym(ax):
                return ax.bit_length()
            # a class already forced by the intervals costs no decision (and consumes no prefix entry)
            n = builtins.abs(cv_of(ax)).bit_length()
            c = self._class_cond(ax, n)
            if c is True:
                return n
            i = len(self.decisions)
            if i < len(self.prefix):
                ent = self.prefix[i]
                if not isinstance(ent, tuple):
                    raise EngineError("replay divergence: expected a bit-length class at %d" % i)
                n = ent[0]
                c = self._class_cond(ax, n)
                if c is True or c is False:
                    raise EngineError("replayed bit-length class decided by intervals")
            if self.branch(c, payload=n):
                return n

    # ------------------------------------------------------------------ branching
    def _flush(self):
        """Assert replayed-but-not-yet-asserted decisions (between engine state and now)."""
        # all decisions are asserted eagerly in branch(); nothing deferred at present
        return

    def _model_to_inputs(self, m):
        vals = {}
        ia = self.input_atoms
        for d in m.decls():
            n = d.name()
            if n in ia:
                try:
                    vals[n] = m[d].as_long()
                except Exception:
                    pass
        return vals

    def branch(self, sb, payload=None):
        """Follow the side given by the shadow value; queue the sibling if feasible.

        Decision log entries are ``side`` or ``(payload, side)`` (concretisation: payload is the
        value tested, which must be replayed verbatim)."""
        side = bool(sb.cv)
        # a condition already decided on this path (syntactically identical, or its negation) is implied by
        # the path condition: no decision, no query
        if sb.op is not None and payload is None:
            dk = sb.d.key()
            hit = self.decided.get((sb.op, dk))
            if hit is None:
                hit2 = self.decided.get((_NEG[sb.op], dk))
                if hit2 is not None:
                    hit = not hit2
            if hit is not None:
                if hit != side:
                    raise EngineError("shadow value contradicts an earlier decision on the same condition")
                return hit
        i = len(self.decisions)
        if i >= self.max_decisions:
            self.nonexhaustive = "decision cap %d reached" % self.max_decisions
            raise PathAbort("limit", self.nonexhaustive)
        ent = side if payload is None else (payload, side)
        eng = self.engine
        if i < len(self.prefix):
            if self.prefix[i] != ent:
                raise EngineError(
                    "replay divergence at decision %d (recorded %r, concrete %r)"
                    % (i, self.prefix[i], ent)
                )
            if i >= self.synced:
                zt = sb.z()
                eng.assert_decision(ent, zt if side else z3.Not(zt))
        else:
            zt = sb.z()
            other = z3.Not(zt) if side else zt
            r, m = eng.check(other)
            if r == z3.sat:
                sib = (not side) if payload is None else (payload, not side)
                # lazily materialised sibling prefix: (shared decision list, length, flipped entry)
                self.pending.append(_Pending(self.decisions, i, sib, self._model_to_inputs(m)))
            elif r != z3.unsat:
                self.nonexhaustive = "solver returned unknown on a branch feasibility query"
            eng.assert_decision(ent, zt if side else z3.Not(zt))
        self.decisions.append(ent)
        if sb.op is not None:
            self.decided[(sb.op, sb.d.key())] = side
        self._narrow(sb, side)
        return side

    def branch_true(self, sb):
        """Branch whose followed side is True by construction of the shadow value."""
        if not self.branch(sb):
            raise EngineError("branch_true took the false side")

    def assume(self, c):
        """Restrict the exploration to c (paths where c fails are dropped, siblings queued)."""
        if isinstance(c, SymInt):
            c = compare0(c, "!=")
        if isinstance(c, SymBool):
            c = self.branch(c)
        if not c:
            raise PathAbort("assume")

    def concretize(self, x):
        if isinstance(x, SymBool):
            return bool(x)
        while isinstance(x, SymInt):
            x = SymInt.mk(x.t, x.k)
            if not isinstance(x, SymInt):
                break
            lo, hi = x.bounds()
            if lo is not None and lo == hi:
                return lo
            i = len(self.decisions)
            if i < len(self.prefix):
                ent = self.prefix[i]
                if not isinstance(ent, tuple):
                    raise EngineError("replay divergence: expected a concretisation at %d" % i)
                v = ent[0]
            else:
                v = x.cv
            c = compare0(x - v, "==")
            if c is True:
                return v
            if c is False:
                raise EngineError("concretisation candidate excluded by intervals")
            if self.branch(c, payload=v):
                return v
            x = SymInt.mk(x.t, x.k)
        return x

    def _narrow(self, sb, side):
        if sb.op is None:
            return
        d = sb.d
        if len(d.t) != 1:
            return
        ((a, c),) = d.t.items()
        op = sb.op if side else _NEG[sb.op]
        k = d.k
        # c*a + k op 0
        if op == "==":
            if (-k) % c == 0:
                a.lo = a.hi = (-k) // c
            return
        if op == "!=":
            if (-k) % c == 0:
                v = (-k) // c
                if a.lo is not None and a.lo == v:
                    a.lo = v + 1
                if a.hi is not None and a.hi == v:
                    a.hi = v - 1
            return
        if op == "<":
            op, k = "<=", k + 1
        elif op == ">":
            op, k = ">=", k - 1
        n = -k
        if op == "<=":  # c*a <= n
            if c > 0:
                b = n // c
                if a.hi is None or b < a.hi:
                    a.hi = b
            else:
                b = _ceil_div(n, c)
                if a.lo is None or b > a.lo:
                    a.lo = b
        else:  # c*a >= n
            if c > 0:
                b = _ceil_div(n, c)
                if a.lo is None or b > a.lo:
                    a.lo = b
            else:
                b = n // c
                if a.hi is None or b < a.hi:
                    a.hi = b

    # ------------------------------------------------------------------ obligations
    def prove(self, c, label="", extra=None):
        """Obligation: c holds on this path.  Verdict by z3 (unsat of pc and not c)."""
        if isinstance(c, SymInt):
            c = compare0(c, "!=")
        if not isinstance(c, SymBool):
            if c:
                self.proved_norm += 1
                return True
            self.failed.append((label, self.model_inputs(), "false-by-normal-form", extra))
            return False
        if not c.cv:
            # the current model already violates it: candidate witness without a query
            self.failed.append((label, self.model_inputs(), "model", extra))
            return False
        r, m = self.engine.check(z3.Not(c.z()))
        if r == z3.unsat:
            self.proved += 1
            return True
        if r == z3.sat:
            w = self.model_inputs()
            w.update(self._model_to_inputs(m))
            self.failed.append((label, w, "sat", extra))
            return False
        self.failed.append((label, None, "unknown", extra))
        return False

    def fail(self, label, extra=None):
        """The path itself violates the property (e.g. an unexpected exception escaped)."""
        self.failed.append((label, self.model_inputs(), "path", extra))

    def prove_eq(self, a, b, label=""):
        if isinstance(a, SymBool):
            a = a.toint()
        if isinstance(b, SymBool):
            b = b.toint()
        if isinstance(a, RawInt) or isinstance(b, RawInt):
            return self.prove(a == b, label)
        if is_sym(a) or is_sym(b):
            return self.prove(compare0(a - b, "=="), label)
        return self.prove(a == b, label)

    def prove_all(self, conds, label="", extra=None):
        """One query for a conjunction of obligations (each counted); falls back to one by one on failure."""
        syms = []
        ok = True
        for c in conds:
            if isinstance(c, SymInt):
                c = compare0(c, "!=")
            if isinstance(c, SymBool):
                syms.append(c)
            elif c:
                self.proved_norm += 1
            else:
                ok = False
                self.failed.append((label, self.model_inputs(), "false-by-normal-form", extra))
        if not syms:
            return ok
        if all(c.cv for c in syms):
            r, m = self.engine.check(z3.Not(z3.And([c.z() for c in syms])) if len(syms) > 1 else z3.Not(syms[0].z()))
            if r == z3.unsat:
                self.proved += len(syms)
                return ok
        for c in syms:
            ok = self.prove(c, label, extra) and ok
        return ok


def _ceil_div(n, c):
    return -((-n) // c)


def _b(x):
    if isinstance(x, SymInt):
        return x.bounds()
    return (x, x)


def _z(x):
    if isinstance(x, SymInt):
        return x.z()
    return _num(x)


def _key(x):
    if isinstance(x, SymInt):
        return x.key()
    return ((), x)


def _zkey(c):
    if c.op is not None:
        return (c.op, c.d.key())
    return ("z", c._z.get_id())


# ---------------------------------------------------------------------- exploration
class _Pending(object):
    """A queued sibling path.  Its prefix is decisions[:n] + [sib]; the list is shared with the path that
    found it (only ever appended to), so a path with N decisions costs O(N) memory, not O(N^2)."""

    __slots__ = ("decisions", "n", "sib", "inputs")

    def __init__(self, decisions, n, sib, inputs):
        self.decisions = decisions
        self.n = n
        self.sib = sib
        self.inputs = inputs

    def materialise(self):
        return (self.decisions[: self.n] + [self.sib], self.inputs)


def as_start(item):
    return item.materialise() if isinstance(item, _Pending) else item


class PathResult(object):
    __slots__ = (
        "outcome",
        "decisions",
        "inputs",
        "failed",
        "proved",
        "proved_norm",
        "queries",
        "unsat",
        "sat",
        "unknown",
        "solver_s",
        "abort",
        "notes",
        "nonexhaustive",
    )

    def asdict(self):
        return {k: getattr(self, k) for k in self.__slots__}


def run_path(fn, engine, prefix, inputs):
    """Execute the harness once.  Returns (ctx, PathResult)."""
    global _CTX
    ctx = Ctx(engine, prefix, inputs)
    prev = _CTX
    _CTX = ctx
    res = PathResult()
    res.abort = None
    try:
        res.outcome = fn(ctx)
    except PathAbort as e:
        res.outcome = None
        res.abort = e.kind
    finally:
        _CTX = prev
    if len(ctx.decisions) < len(ctx.prefix) and res.abort is None:
        raise EngineError(
            "path ended after %d decisions but its prefix has %d"
            % (len(ctx.decisions), len(ctx.prefix))
        )
    q0 = ctx._q0
    res.decisions = len(ctx.decisions)
    res.inputs = ctx.model_inputs()
    res.failed = ctx.failed
    res.proved = ctx.proved
    res.proved_norm = ctx.proved_norm
    res.queries = engine.n_queries - q0[0]
    res.unsat = engine.n_unsat - q0[1]
    res.sat = engine.n_sat - q0[2]
    res.unknown = engine.n_unknown - q0[3]
    res.solver_s = engine.solver_s - q0[4]
    res.notes = ctx.notes
    res.nonexhaustive = ctx.nonexhaustive or ("decision cap" if res.abort == "limit" else None)
    return ctx, res


def explore(fn, start=None, opts=None, max_paths=None, deadline=None, on_path=None, engine=None):
    """Depth-first exploration.  Returns dict with per-path results and leftover worklist."""
    engine = engine or Engine(opts)
    stack = list(start) if start else [([], {})]
    results = []
    nonexh = []
    n = 0
    while stack:
        if (max_paths is not None and n >= max_paths) or (
            deadline is not None and time.time() > deadline
        ):
            break
        prefix, inputs = as_start(stack.pop())
        ctx, res = run_path(fn, engine, prefix, inputs)
        n += 1
        stack.extend(ctx.pending)
        if res.nonexhaustive:
            nonexh.append(res.nonexhaustive)
        if on_path is not None:
            on_path(res)
        results.append(res)
    return {"results": results, "leftover": [as_start(x) for x in stack], "nonexhaustive": nonexh}
