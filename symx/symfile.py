"""File-like object over a list of byte cells (``int`` or ``SymInt``).

Stands in for ``io.BytesIO`` / an OS file in the decoder and the bitstream reader/writer.
``read(1)`` returns a one element list (the injected ``bytearray`` of the two I/O modules turns it
into a list again, so ``bytearray(byte)[0]`` yields the cell) or an empty list at end of file.
"""
from __future__ import annotations

from symx import core


class SymFile(object):
    def __init__(self, cells=None, limit=None):
        self.cells = list(cells) if cells is not None else []
        self.pos = 0
        self.limit = limit  # optional (symbolic) length: reads at or beyond it hit end of file

    # -- reading
    def read(self, n=-1):
        if n is None or n < 0:
            n = len(self.cells) - self.pos
        out = self.cells[self.pos : self.pos + n]
        if self.limit is not None:
            keep = []
            for i, c in enumerate(out):
                if self.pos + i < self.limit:  # forks when the limit is symbolic
                    keep.append(c)
                else:
                    break
            out = keep
        self.pos += len(out)
        return out

    def tell(self):
        return self.pos

    def seek(self, off, whence=0):
        if whence == 0:
            self.pos = off
        elif whence == 1:
            self.pos += off
        else:
            self.pos = len(self.cells) + off
        if self.pos < 0:
            raise ValueError("negative seek position")
        return self.pos

    # -- writing
    def write(self, data):
        data = list(data)
        while len(self.cells) < self.pos:
            self.cells.append(0)
        self.cells[self.pos : self.pos + len(data)] = data
        self.pos += len(data)
        return len(data)

    def flush(self):
        pass

    def close(self):
        pass

    def getcells(self):
        return list(self.cells)

    def concrete(self, ctx=None):
        """Bytes under the current model."""
        return bytes(bytearray(core.cv_of(c) for c in self.cells))


def sym_bytes(ctx, name, n, defaults=None):
    """n symbolic bytes, each the sum of 8 bit atoms."""
    out = []
    for i in range(n):
        d = defaults[i] if defaults is not None else 0
        out.append(ctx.sym_bits("%s[%d]" % (name, i), 8, d))
    return out
