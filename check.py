#!/verif/.venv/bin/python
"""Entry point: ./check.py <property id> [--tier quick|thorough] [--canaries] [--replay FILE]"""
from __future__ import annotations

import argparse
import importlib
import json
import os
import subprocess
import sys

VERIF = os.path.dirname(os.path.abspath(__file__))
sys.path.insert(0, VERIF)
# VERIF_REPO=<dir>: analyse another checkout of the repository (e.g. a scratch worktree holding a seeded change) instead of
# /repo.  PYTHONPATH precedes the overlay's .pth entry for /repo, also in sub-processes (canaries, CrossHair).
if os.environ.get("VERIF_REPO"):
    sys.path.insert(0, os.environ["VERIF_REPO"])
    os.environ["PYTHONPATH"] = os.environ["VERIF_REPO"] + os.pathsep + os.environ.get("PYTHONPATH", "")


def _ensure_overlay():
    """Re-exec under the overlay interpreter (builds it if missing: `vp check` starts from committed files)."""
    py = os.path.join(VERIF, ".venv", "bin", "python")
    if os.path.realpath(sys.executable) != os.path.realpath(py) and os.environ.get("VERIF_OVERLAY") != "1":
        if not os.path.exists(py):
            subprocess.check_call([os.path.join(VERIF, "setup.sh")], stdout=sys.stderr)
        env = dict(os.environ, VERIF_OVERLAY="1")
        os.execve(py, [py, os.path.abspath(__file__)] + sys.argv[1:], env)
    try:
        import z3  # noqa
    except ImportError:
        subprocess.check_call([os.path.join(VERIF, "setup.sh")], stdout=sys.stderr)
        env = dict(os.environ, VERIF_OVERLAY="1")
        os.execve(py, [py, os.path.abspath(__file__)] + sys.argv[1:], env)


def _finish(code):
    """Exit without waiting for executor management threads of killed worker pools."""
    sys.stdout.flush()
    sys.stderr.flush()
    os._exit(code)


def main():
    import faulthandler, signal

    faulthandler.register(signal.SIGUSR1, all_threads=True)
    ap = argparse.ArgumentParser()
    ap.add_argument("prop")
    ap.add_argument("--tier", default=os.environ.get("VERIF_TIER", "quick"), choices=["quick", "thorough"])
    ap.add_argument("--canaries", action="store_true", help="run the check's in-process mutants; each must be detected")
    ap.add_argument("--canary", help="run one named canary mutant (quick tier) and print a JSON line")
    ap.add_argument("--replay", help="re-run a recorded witness on the plain code")
    ap.add_argument("--no-evidence", action="store_true")
    a = ap.parse_args()
    _ensure_overlay()
    os.environ.setdefault("VC2_CONFORMANCE_VERIF", "1")
    seed = int(os.environ.get("VERIF_SEED", "0") or 0)
    modname = "checks.%s" % a.prop.lower()
    from symx import runner

    if a.replay:
        rec = json.load(open(a.replay))
        mod = importlib.import_module(rec.get("module", modname))
        rr = mod.replay(rec["task"], rec["label"], rec["inputs"], rec.get("extra"))
        print(json.dumps(rr, indent=1, default=repr))
        sys.exit(1 if rr.get("reproduced") else 0)

    if a.canary:
        code, ev, info = runner.run_check(modname, "quick", seed, canary=a.canary, quiet=True)
        print(json.dumps({"canary": a.canary, "exit": code, "keys": [v["key"] for v in info["violations"]], "problems": [p[:200] for p in info["problems"]][:2]}))
        _finish(0)

    def run_canaries():
        """Each canary mutant in a fresh process (quick tier); returns [(name, detected, info)]."""
        mod = importlib.import_module(modname)
        out = []
        for n, _ in mod.canaries():
            try:
                r = subprocess.run([sys.executable, os.path.abspath(__file__), a.prop, "--canary", n], capture_output=True, text=True, timeout=1500,
                                   env=dict(os.environ, VERIF_OVERLAY="1"))
                line = [l for l in r.stdout.splitlines() if l.startswith("{")]
                res = json.loads(line[-1]) if line else {"exit": "no-output", "keys": [], "problems": [r.stderr[-300:]]}
            except subprocess.TimeoutExpired:
                res = {"exit": "timeout", "keys": [], "problems": []}
            ok = res["exit"] == 1
            print("CANARY %s %s: %s" % (a.prop, n, ("detected (%s)" % res["keys"][0]) if ok else "MISSED exit=%s %s" % (res["exit"], res["problems"][:1])))
            out.append((n, ok))
        return out

    if a.canaries:
        det = run_canaries()
        print("canaries detected %d/%d" % (sum(d for _, d in det), len(det)))
        _finish(0 if all(d for _, d in det) else 3)

    code, ev, info = runner.run_check(modname, a.tier, seed)
    if a.tier == "thorough" and hasattr(importlib.import_module(modname), "canaries") and os.environ.get("VERIF_SKIP_CANARIES") != "1":
        det = run_canaries()
        ev["coverage"]["canaries"] = {n: d for n, d in det}
        ev["coverage"]["canaries_detected"] = sum(d for _, d in det)
        if code == 0 and not all(d for _, d in det):
            print("INCONCLUSIVE property=%s a canary mutant was not detected" % a.prop)
            code = 3
    if not a.no_evidence and not os.environ.get("VERIF_TASKS"):
        runner.write_evidence(ev)
    _finish(code)


if __name__ == "__main__":
    main()
