"""Data-unit blocks cut from the committed fixtures, assembly of streams with symbolic structural
fields, and the *reference predicate* for stream structure (C01) -- an independent reading of the
rules listed in the property statement; it never touches vc2_conformance.symbol_re or the decoder."""
from __future__ import annotations

from lib import dec

M32 = 1 << 32

# parse codes
SEQ, EOS, AUX, PAD = 0x00, 0x10, 0x20, 0x30
LD_PIC, HQ_PIC, LD_FRAG, HQ_FRAG = 0xC8, 0xE8, 0xCC, 0xEC


class Block(object):
    """One data unit's bytes + what the reference predicate needs to know about it."""

    def __init__(self, name, data, **kw):
        self.name = name
        self.data = bytes(data)
        self.code = self.data[4]
        self.__dict__.update(kw)

    @property
    def length(self):
        return len(self.data)

    def is_picture(self):
        return self.code in (LD_PIC, HQ_PIC)

    def is_fragment(self):
        return self.code in (LD_FRAG, HQ_FRAG)


_LIB = None


def library():
    """name -> Block.  Headers carry (profile, major_version, level, fields, slices)."""
    global _LIB
    if _LIB is not None:
        return _LIB
    L = {}

    def cut(fx, i):
        data, meta = dec.fixture(fx)
        off, code, npo, ln = meta["units"][i]
        return data[off:off + ln]

    # sequence headers
    L["SH"] = Block("SH", cut("hq_min", 0), profile="hq", major_version=2, level=0, fields=False, slices=2)
    L["SH_B"] = Block("SH_B", cut("hq_420", 0), profile="hq", major_version=2, level=0, fields=False, slices=2)  # same length, different bytes
    L["SH_V3"] = Block("SH_V3", cut("hq_frag", 0), profile="hq", major_version=3, level=0, fields=False, slices=2)
    L["SH_LD"] = Block("SH_LD", cut("ld_min", 0), profile="ld", major_version=1, level=0, fields=False, slices=2)
    L["SH_LD_V3"] = Block("SH_LD_V3", cut("ld_frag", 0), profile="ld", major_version=3, level=0, fields=False, slices=2)
    L["SH_FIELDS"] = Block("SH_FIELDS", cut("hq_fields", 0), profile="hq", major_version=2, level=0, fields=True, slices=2)
    L["SH_L1"] = Block("SH_L1", cut("hq_level1", 0), profile="hq", major_version=2, level=1, fields=False, slices=2)
    L["SH_L1_V3"] = Block("SH_L1_V3", cut("hq_level1_frag", 0), profile="hq", major_version=3, level=1, fields=False, slices=2)
    L["SH_L66"] = Block("SH_L66", cut("hq_level66", 0), profile="hq", major_version=2, level=66, fields=False, slices=2)
    # pictures
    L["PIC"] = Block("PIC", cut("hq_min", 1))
    L["PIC_LD"] = Block("PIC_LD", cut("ld_min", 1))
    # the same pictures coded under major_version 3 (extended transform parameter flags present)
    L["PIC3"] = Block("PIC3", cut("hq_v3_pics", 1))
    L["PIC_LD3"] = Block("PIC_LD3", cut("ld_v3_pics", 1))
    # fragments (HQ): initial, slice 0, slice 1, both slices
    L["F0"] = Block("F0", cut("hq_frag", 1), nslices=0)
    L["FS0"] = Block("FS0", cut("hq_frag", 2), nslices=1, xy=(0, 0))
    L["FS1"] = Block("FS1", cut("hq_frag", 3), nslices=1, xy=(1, 0))
    L["FS01"] = Block("FS01", cut("hq_frag2", 2), nslices=2, xy=(0, 0))
    L["F0_LD"] = Block("F0_LD", cut("ld_frag", 1), nslices=0)
    L["FS0_LD"] = Block("FS0_LD", cut("ld_frag", 2), nslices=1, xy=(0, 0))
    L["FS1_LD"] = Block("FS1_LD", cut("ld_frag", 3), nslices=1, xy=(1, 0))
    # one sequence whose pictures change wavelet, depth, slice counts and quantisation matrix (custom, default, custom)
    L["SH_PC"] = Block("SH_PC", cut("hq_params_change", 0), profile="hq", major_version=2, level=0, fields=False, slices=1)
    for i in (1, 2, 3):
        L["PC%d" % i] = Block("PC%d" % i, cut("hq_params_change", i))
    L["PADU"] = Block("PADU", cut("hq_padaux", 1))
    L["PAD3"] = Block("PAD3", cut("hq_padaux_payload", 1))
    L["AUXU"] = Block("AUXU", cut("hq_padaux", 2))
    L["EOS"] = Block("EOS", cut("hq_min", 2))
    for b in L.values():
        assert b.data[:4] == b"BBCD", b.name
    assert L["SH"].length == L["SH_B"].length and L["SH"].data != L["SH_B"].data
    _LIB = L
    return L


def normalise_order(order):
    """Pictures are only individually valid data units under a header of the major_version they were coded
    for (version 3 adds the extended transform parameter flags): use the matching variant per sequence."""
    L = library()
    out = []
    v3 = False
    start = True
    for nm in order:
        b = L[nm]
        if start and b.code == SEQ:
            v3 = b.major_version >= 3
        start = b.code == EOS
        if nm in ("PIC", "PIC3"):
            nm = "PIC3" if v3 else "PIC"
        elif nm in ("PIC_LD", "PIC_LD3"):
            nm = "PIC_LD3" if v3 else "PIC_LD"
        out.append(nm)
    return out


def _be(v, n):
    return [(v >> (8 * (n - 1 - i))) & 0xFF for i in range(n)]


class Unit(object):
    """A block instance inside an assembled stream with its (possibly symbolic) structural fields."""

    __slots__ = ("block", "npo", "ppo", "picnum", "xoff", "yoff", "offset")


def assemble(order, field):
    """Build the cell list for the blocks named in ``order``.

    ``field(i, name, nbits, default)`` returns the value (symbolic or concrete) of structural field
    ``name`` of unit i; defaults are the values that make the stream conformant where possible."""
    L = library()
    units = []
    cells = []
    prev_len = 0
    picnum = 0
    npics = 0
    for i, nm in enumerate(order):
        b = L[nm]
        u = Unit()
        u.block = b
        u.offset = len(cells)
        data = list(b.data)
        last = i == len(order) - 1
        # padding/auxiliary next_parse_offset determines how many bytes are read: kept concrete
        true_next = 0 if b.code == EOS else b.length
        if b.code in (PAD, AUX):
            u.npo = int.from_bytes(b.data[5:9], "big")
        else:
            u.npo = field(i, "npo", 32, true_next)
        u.ppo = field(i, "ppo", 32, prev_len)
        data[5:9] = _be(u.npo, 4)
        data[9:13] = _be(u.ppo, 4)
        u.picnum = u.xoff = u.yoff = None
        if b.is_picture() or b.is_fragment():
            if b.is_picture() or b.nslices == 0:
                if npics:
                    picnum = (picnum + 1) % M32
                npics += 1
            u.picnum = field(i, "pic", 32, picnum)
            data[13:17] = _be(u.picnum, 4)
            if b.is_fragment() and b.nslices:
                u.xoff = field(i, "x", 16, b.xy[0])
                u.yoff = field(i, "y", 16, b.xy[1])
                data[21:23] = _be(u.xoff, 2)
                data[23:25] = _be(u.yoff, 2)
        cells.extend(data)
        units.append(u)
        prev_len = b.length
    return cells, units


# ------------------------------------------------------------------------------------------------
# Reference predicate.  Works on concrete ints and on symx values alike: every test on a structural
# field goes through the tiny boolean algebra below (Python bools or SymBool).
def _and(a, b):
    if a is False or b is False:
        return False
    if a is True:
        return b
    if b is True:
        return a
    return a & b


def _or(a, b):
    if a is True or b is True:
        return True
    if a is False:
        return b
    if b is False:
        return a
    return a | b


def reference(units, sequences=None):
    """Conformance of the assembled stream's structure.  Returns (verdict, rules) where verdict is a bool
    or SymBool and rules is a list of (rule name, bool/SymBool) in evaluation order (for explanations)."""
    rules = []

    def rule(name, cond):
        rules.append((name, cond))

    # split into sequences at end_of_sequence units
    seqs = []
    cur = []
    for u in units:
        cur.append(u)
        if u.block.code == EOS:
            seqs.append(cur)
            cur = []
    if cur:
        seqs.append(cur)
        rule("sequence-ends-with-end-of-sequence", False)
    if not units:
        # the empty stream is a valid (empty) list of sequences
        pass
    for s in seqs:
        _reference_sequence(s, rule)
    verdict = True
    for _, c in rules:
        verdict = _and(verdict, c)
    return verdict, rules


def _reference_sequence(s, rule):
    first = s[0].block
    rule("sequence-starts-with-sequence-header", first.code == SEQ)
    if first.code != SEQ:
        return
    hdr = first
    # --- parse offsets
    for i, u in enumerate(s):
        b = u.block
        true_next = b.length
        if b.code == EOS:
            rule("eos-next-offset-zero", u.npo == 0)
        elif b.is_picture() or b.is_fragment():
            rule("picture-next-offset-zero-or-true", _or(u.npo == 0, u.npo == true_next))
        else:
            rule("next-offset-true", u.npo == true_next)
        rule("previous-offset-true", u.ppo == (0 if i == 0 else s[i - 1].block.length))
    # --- repeated sequence headers are byte-identical
    for u in s[1:]:
        if u.block.code == SEQ:
            rule("repeated-sequence-header-identical", u.block.data[13:] == hdr.data[13:])
    # --- profile: low-delay codes only in the LD profile, high-quality codes only in HQ
    for u in s:
        c = u.block.code
        if c in (LD_PIC, LD_FRAG):
            rule("parse-code-allowed-in-profile", hdr.profile == "ld")
        if c in (HQ_PIC, HQ_FRAG):
            rule("parse-code-allowed-in-profile", hdr.profile == "hq")
    # --- major_version: supports every feature used and is the smallest such version (11.2.2)
    need = 1
    if hdr.profile == "hq":
        need = max(need, 2)
    uses_fragments = any(u.block.is_fragment() for u in s)
    if uses_fragments:
        need = max(need, 3)
    rule("major-version-supports-features", hdr.major_version >= need)
    npictures = sum(1 for u in s if u.block.is_picture() or (u.block.is_fragment() and u.block.nslices == 0))
    rule("major-version-minimal", hdr.major_version == need or (npictures == 0 and hdr.major_version == 3) or hdr.major_version < need)
    # --- picture numbers: consecutive modulo 2^32, even first field, whole frames
    starts = [u for u in s if u.block.is_picture() or (u.block.is_fragment() and u.block.nslices == 0)]
    for a, b in zip(starts, starts[1:]):
        rule("picture-numbers-consecutive", _or(b.picnum == a.picnum + 1, _and(a.picnum == M32 - 1, b.picnum == 0)))
    if hdr.fields:
        for k, u in enumerate(starts):
            if k % 2 == 0:
                rule("first-field-even", (u.picnum % 2) == 0)
        rule("whole-number-of-frames", len(starts) % 2 == 0)
    # --- fragments
    nslices = hdr.slices
    remaining = 0
    received = 0
    started = False
    cur = None
    for u in s:
        b = u.block
        if b.is_picture():
            rule("no-picture-inside-fragmented-picture", remaining == 0)
        elif b.is_fragment():
            if b.nslices == 0:
                rule("fragmented-picture-not-restarted", remaining == 0)
                remaining, received, started, cur = nslices, 0, True, u
            else:
                rule("slices-follow-an-initial-fragment", started)
                if not started:
                    continue
                # the picture number must be that of the last picture start of any kind
                last_start = [v for v in s[: s.index(u)] if v.block.is_picture() or (v.block.is_fragment() and v.block.nslices == 0)][-1]
                rule("fragment-picture-number-unchanged", u.picnum == last_start.picnum)
                rule("no-extra-slices", b.nslices <= remaining)
                rule("slices-contiguous-raster-order", _and(u.xoff == received % nslices, u.yoff == received // nslices))
                received += b.nslices
                remaining -= b.nslices
    rule("fragmented-picture-complete", remaining <= 0)
    # --- level data-unit ordering pattern (hand-written automata)
    rule("level-ordering-pattern", _level_pattern(hdr.level, [u.block.code for u in s]))


def _level_pattern(level, codes):
    if level == 0:
        return True
    if level in (1, 2, 3, 4, 5, 6, 7):
        # sequence_header ( (hdr|aux|pad|pictures)* | (hdr|aux|pad|fragments)* ) end_of_sequence
        if not codes or codes[0] != SEQ or codes[-1] != EOS:
            return False
        body = codes[1:-1]
        if any(c == EOS for c in body):
            return False
        has_pics = any(c in (LD_PIC, HQ_PIC) for c in body)
        has_frags = any(c in (LD_FRAG, HQ_FRAG) for c in body)
        return not (has_pics and has_frags)
    if level == 66:
        # (sequence_header high_quality_picture)* end_of_sequence
        if not codes or codes[-1] != EOS:
            return False
        body = codes[:-1]
        if len(body) % 2:
            return False
        return all(body[i] == SEQ and body[i + 1] == HQ_PIC for i in range(0, len(body), 2))
    raise ValueError("no reference automaton for level %r" % level)


def first_failing_rule(rules, concrete=True):
    for name, c in rules:
        v = c if isinstance(c, bool) else bool(getattr(c, "cv", c))
        if not v:
            return name
    return None
