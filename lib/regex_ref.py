"""Reference semantics for the data-unit pattern language (independent of vc2_conformance.symbol_re).

Regular expressions are tuples:
  ("sym", name) | ("any",) | ("eps",) | ("empty",) | ("cat", r, s) | ("alt", r, s) | ("star", r)
``?`` is alt(r, eps), ``+`` is cat(r, star(r)).  A trailing ``$`` is eps.
Matching uses Brzozowski derivatives with light simplification; emptiness and nullability are exact.
"""
from __future__ import annotations

import re
from collections import deque
from functools import lru_cache

EPS = ("eps",)
EMPTY = ("empty",)
ANY = ("any",)


def sym(n):
    return ("sym", n)


def cat(r, s):
    if r == EMPTY or s == EMPTY:
        return EMPTY
    if r == EPS:
        return s
    if s == EPS:
        return r
    return ("cat", r, s)


def alt(r, s):
    if r == EMPTY:
        return s
    if s == EMPTY:
        return r
    if r == s:
        return r
    # canonical order so that derivative sets stay small
    if repr(r) > repr(s):
        r, s = s, r
    return ("alt", r, s)


def star(r):
    if r in (EPS, EMPTY):
        return EPS
    if r[0] == "star":
        return r
    return ("star", r)


@lru_cache(maxsize=None)
def nullable(r):
    k = r[0]
    if k in ("eps", "star"):
        return True
    if k in ("sym", "any", "empty"):
        return False
    if k == "cat":
        return nullable(r[1]) and nullable(r[2])
    return nullable(r[1]) or nullable(r[2])


@lru_cache(maxsize=None)
def deriv(r, x):
    k = r[0]
    if k in ("eps", "empty"):
        return EMPTY
    if k == "sym":
        return EPS if r[1] == x else EMPTY
    if k == "any":
        return EPS
    if k == "cat":
        d = cat(deriv(r[1], x), r[2])
        if nullable(r[1]):
            d = alt(d, deriv(r[2], x))
        return d
    if k == "alt":
        return alt(deriv(r[1], x), deriv(r[2], x))
    return cat(deriv(r[1], x), r)  # star


@lru_cache(maxsize=None)
def is_empty(r):
    """Language emptiness (exact: no intersection/complement in the language)."""
    k = r[0]
    if k == "empty":
        return True
    if k in ("eps", "sym", "any", "star"):
        return False
    if k == "cat":
        return is_empty(r[1]) or is_empty(r[2])
    return is_empty(r[1]) and is_empty(r[2])


def symbols_of(r):
    out = set()
    st = [r]
    while st:
        t = st.pop()
        if t[0] == "sym":
            out.add(t[1])
        elif t[0] in ("cat", "alt"):
            st += [t[1], t[2]]
        elif t[0] == "star":
            st.append(t[1])
    return out


class RefMatcher(object):
    """Same interface as symbol_re.Matcher, by derivatives."""

    def __init__(self, r):
        self.r = r

    def accepts(self, x):
        return not is_empty(deriv(self.r, x))

    def match_symbol(self, x):
        d = deriv(self.r, x)
        if is_empty(d):
            return False
        self.r = d
        return True

    def is_complete(self):
        return nullable(self.r)


# ---------------------------------------------------------------------------- surface syntax
def render(t):
    """Surface syntax (fully parenthesised) of a *surface* AST:
    ("sym",n) ("any",) ("cat",r,s) ("alt",r,s) ("opt",r) ("star",r) ("plus",r)."""
    k = t[0]
    if k == "sym":
        return t[1]
    if k == "any":
        return "."
    if k == "cat":
        return "%s %s" % (_wrap(t[1]), _wrap(t[2]))
    if k == "alt":
        return "%s | %s" % (_wrap(t[1]), _wrap(t[2]))
    return "%s%s" % (_wrap(t[1]), {"opt": "?", "star": "*", "plus": "+"}[k])


def _wrap(t):
    if t[0] in ("sym", "any"):
        return render(t)
    return "(" + render(t) + ")"


def lower(t):
    """Surface AST -> core regular expression."""
    k = t[0]
    if k == "sym":
        return sym(t[1])
    if k == "any":
        return ANY
    if k == "cat":
        return cat(lower(t[1]), lower(t[2]))
    if k == "alt":
        return alt(lower(t[1]), lower(t[2]))
    r = lower(t[1])
    if k == "opt":
        return alt(r, EPS)
    if k == "star":
        return star(r)
    return cat(r, star(r))


def enumerate_asts(max_nodes, leaves=(("sym", "a"), ("sym", "b"), ("any",))):
    """All surface ASTs with at most max_nodes nodes."""
    by_size = {1: list(leaves)}
    for n in range(2, max_nodes + 1):
        cur = []
        for t in by_size[n - 1]:
            for op in ("opt", "star", "plus"):
                if t[0] in ("opt", "star", "plus") and op == t[0]:
                    continue
                cur.append((op, t))
        for i in range(1, n - 1):
            j = n - 1 - i
            for a in by_size[i]:
                for b in by_size[j]:
                    cur.append(("cat", a, b))
                    if repr(a) <= repr(b):
                        cur.append(("alt", a, b))
        by_size[n] = cur
    out = []
    for n in range(1, max_nodes + 1):
        out += by_size[n]
    return out


_TOK = re.compile(r"\s*([A-Za-z0-9_]+|[().|?*+$])")


def parse(pattern):
    """Independent recursive-descent parser for real patterns: alternation < concatenation < suffix; trailing '$' is eps.
    An empty pattern (or empty group) is eps."""
    toks = []
    pos = 0
    pattern = pattern.strip()
    while pos < len(pattern):
        m = _TOK.match(pattern, pos)
        if not m:
            raise ValueError("bad pattern at %d: %r" % (pos, pattern))
        toks.append(m.group(1))
        pos = m.end()
    i = [0]

    def peek():
        return toks[i[0]] if i[0] < len(toks) else None

    def eat():
        i[0] += 1
        return toks[i[0] - 1]

    def p_alt():
        r = p_cat()
        while peek() == "|":
            eat()
            r = alt(r, p_cat())
        return r

    def p_cat():
        r = EPS
        while peek() is not None and peek() not in (")", "|"):
            r = cat(r, p_suffix())
        return r

    def p_suffix():
        t = eat()
        if t == "(":
            r = p_alt()
            if eat() != ")":
                raise ValueError("expected )")
        elif t == ".":
            r = ANY
        elif t == "$":
            r = EPS
        elif t in ("?", "*", "+", ")", "|"):
            raise ValueError("unexpected %r" % t)
        else:
            r = sym(t)
        while peek() in ("?", "*", "+"):
            s = eat()
            r = alt(r, EPS) if s == "?" else star(r) if s == "*" else cat(r, star(r))
        return r

    r = p_alt()
    if peek() is not None:
        raise ValueError("trailing tokens")
    return r


# ---------------------------------------------------------------------------- reference completion search
def shortest_completion(required, regexes, depth_limit, alphabet):
    """Length of the shortest supersequence of ``required`` (insertions only, at most ``depth_limit`` consecutive
    insertions) matching all ``regexes``; None if there is none.  Plain breadth-first search over
    (index into required, derivative tuple, consecutive insertions)."""
    start = (0, tuple(regexes), 0)
    seen = {start}
    q = deque([(start, 0)])
    while q:
        (i, rs, ins), n = q.popleft()
        if i == len(required) and all(nullable(r) for r in rs):
            return n
        nxt = []
        if i < len(required):
            ds = tuple(deriv(r, required[i]) for r in rs)
            if not any(is_empty(d) for d in ds):
                nxt.append((i + 1, ds, 0))
        if ins < depth_limit:
            for x in alphabet:
                ds = tuple(deriv(r, x) for r in rs)
                if not any(is_empty(d) for d in ds):
                    nxt.append((i, ds, ins + 1))
        for s in nxt:
            if s not in seen:
                seen.add(s)
                q.append((s, n + 1))
    return None


def check_completion(required, result, regexes, wildcard=None):
    """Soundness of a returned sequence: contains required in order (only insertions) and matches all regexes.
    A WILDCARD sentinel in the result stands for 'any symbol' (matched as a fresh symbol)."""
    # subsequence
    j = 0
    for x in result:
        if j < len(required) and x == required[j]:
            j += 1
    sub = j == len(required)
    # greedy subsequence test is exact for "required is a subsequence of result"
    ok = True
    for r in regexes:
        cur = r
        for x in result:
            cur = deriv(cur, "\x00fresh" if (wildcard is not None and x is wildcard) else x)
        ok = ok and nullable(cur)
    return sub, ok


def greedy_completion_length(required, regexes, depth_limit, alphabet):
    """Length found by a breadth-first search that *always* consumes the next required symbol as soon as every pattern
    accepts it (never considering an insertion at that point).  This is the behaviour of the documented defect of
    make_matching_sequence; it is kept only to recognise that known finding, never as an oracle."""
    q = deque([(0, tuple(regexes), depth_limit, 0)])
    while q:
        i, rs, lim, n = q.popleft()
        if i == len(required):
            if all(nullable(r) for r in rs):
                return n
        else:
            ds = tuple(deriv(r, required[i]) for r in rs)
            if not any(is_empty(d) for d in ds):
                q.append((i + 1, ds, depth_limit, n + 1))
                continue
        if lim <= 0:
            continue
        for x in alphabet:
            ds = tuple(deriv(r, x) for r in rs)
            if not any(is_empty(d) for d in ds):
                q.append((i, ds, lim - 1, n + 1))
    return None
