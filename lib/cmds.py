"""Run the repository's command classes (vc2-bitstream-validator, vc2-bitstream-viewer) on an in-memory file.

Symbolic side: the command's real run() method is executed with three names of its module namespace replaced -- open()
(returns the given file object), os (os.path.getsize gives the given size) and, for the validator, the file-format
write() (records its arguments) -- and stdout/stderr captured.  Plain side: the real main() on real files in a scratch
directory.
"""
from __future__ import annotations

import contextlib
import io
import os
import shutil
import sys
import tempfile


class _Path(object):
    def __init__(self, size):
        self._size = size

    def getsize(self, filename):
        return self._size

    basename = staticmethod(os.path.basename)


class _OS(object):
    def __init__(self, size):
        self.path = _Path(size)


@contextlib.contextmanager
def _patched(mod, fileobj, size, extra):
    saved = {}
    new = dict(extra, os=_OS(size), open=lambda filename, mode="rb": fileobj)
    missing = object()
    for k, v in new.items():
        saved[k] = mod.__dict__.get(k, missing)
        setattr(mod, k, v)
    out, err = io.StringIO(), io.StringIO()
    so, se = sys.stdout, sys.stderr
    sys.stdout, sys.stderr = out, err
    try:
        yield out, err
    finally:
        sys.stdout, sys.stderr = so, se
        for k, v in saved.items():
            if v is missing:
                delattr(mod, k)
            else:
                setattr(mod, k, v)


def run_validator(fileobj, size, pattern="pic_%d.raw", argv=()):
    """Real vc2_bitstream_validator.main().  Returns (return code, [(filename, picture, video_parameters, coding mode)], stdout, stderr)."""
    import vc2_conformance.scripts.vc2_bitstream_validator as V

    rec = []

    def write(picture, video_parameters, picture_coding_mode, filename):
        rec.append((filename, picture, video_parameters, picture_coding_mode))

    with _patched(V, fileobj, size, {"write": write}) as (out, err):
        rc = V.main(["stream.vc2", "-o", pattern] + list(argv))
    return rc, rec, out.getvalue(), err.getvalue()


def run_viewer(fileobj, size, argv=()):
    """Real vc2_bitstream_viewer.main() (default options unless argv is given).  Returns (return code, stdout, stderr)."""
    import vc2_conformance.scripts.vc2_bitstream_viewer as W

    with _patched(W, fileobj, size, {}) as (out, err):
        rc = W.main(["stream.vc2"] + list(argv))
    return rc, out.getvalue(), err.getvalue()


@contextlib.contextmanager
def scratch_dir():
    d = tempfile.mkdtemp(prefix="vc2verif_")
    try:
        yield d
    finally:
        shutil.rmtree(d, ignore_errors=True)


def real_main(modname, argv):
    """The command's real main() with captured output.  Returns (return code, stdout, stderr)."""
    import importlib

    M = importlib.import_module(modname)
    out, err = io.StringIO(), io.StringIO()
    so, se = sys.stdout, sys.stderr
    sys.stdout, sys.stderr = out, err
    try:
        try:
            rc = M.main(argv)
        except SystemExit as e:
            rc = ("SystemExit", e.code)
        except Exception as e:
            rc = ("raised", type(e).__name__, str(e)[:200])
    finally:
        sys.stdout, sys.stderr = so, se
    return rc, out.getvalue(), err.getvalue()
