"""In-process relaxation of the level *value* tables (the ordering patterns stay the repository's).

The real levels 1..7, 64..66 only admit large broadcast formats; to exercise their data-unit ordering
patterns on tiny streams the rows of LEVEL_CONSTRAINTS for the chosen levels are replaced by one row that
admits any value (exactly what the test suite does with its alternative level table)."""
from __future__ import annotations


def relax_levels(levels=(1, 66, 64)):
    from vc2_conformance.level_constraints import LEVEL_CONSTRAINTS
    from vc2_conformance.constraint_table import ValueSet, AnyValue

    keys = set()
    for row in LEVEL_CONSTRAINTS:
        keys.update(row.keys())
    for lv in levels:
        if any(getattr(r, "_symx_relaxed", None) == lv for r in LEVEL_CONSTRAINTS if isinstance(r, _Row)):
            continue
        for i in reversed(range(len(LEVEL_CONSTRAINTS))):
            if lv in LEVEL_CONSTRAINTS[i].get("level", ValueSet()) and not isinstance(LEVEL_CONSTRAINTS[i], _Row):
                # a row may list several levels: keep it for the others
                row = LEVEL_CONSTRAINTS[i]
                others = [v for v in row["level"].iter_values() if v != lv]
                if others:
                    row = dict(row)
                    row["level"] = ValueSet(*others)
                    LEVEL_CONSTRAINTS[i] = row
                else:
                    del LEVEL_CONSTRAINTS[i]
        new = _Row((k, AnyValue()) for k in keys)
        new["level"] = ValueSet(lv)
        new._symx_relaxed = lv
        LEVEL_CONSTRAINTS.append(new)


class _Row(dict):
    pass
