"""Concrete stream construction with the repository's current encoder (plain code, no shims)."""
from __future__ import annotations

import io
from copy import deepcopy

from vc2_data_tables import (
    BaseVideoFormats,
    ColorDifferenceSamplingFormats,
    Levels,
    PictureCodingModes,
    Profiles,
    WaveletFilters,
    PresetColorPrimaries,
    PresetColorMatrices,
    PresetTransferFunctions,
    SourceSamplingModes,
)
from vc2_conformance.codec_features import CodecFeatures
from vc2_conformance.pseudocode.video_parameters import VideoParameters


def minimal_codec_features(**over):
    """8x4 4:4:4 8 bit progressive, Haar depth 1, 2x1 slices, HQ lossy 24 bytes (the suite's 'minimal')."""
    vp = VideoParameters(
        frame_width=8,
        frame_height=4,
        color_diff_format_index=ColorDifferenceSamplingFormats.color_4_4_4,
        source_sampling=SourceSamplingModes.progressive,
        top_field_first=True,
        frame_rate_numer=1,
        frame_rate_denom=1,
        pixel_aspect_ratio_numer=1,
        pixel_aspect_ratio_denom=1,
        clean_width=8,
        clean_height=4,
        left_offset=0,
        top_offset=0,
        luma_offset=0,
        luma_excursion=255,
        color_diff_offset=128,
        color_diff_excursion=255,
        color_primaries_index=PresetColorPrimaries.hdtv,
        color_matrix_index=PresetColorMatrices.hdtv,
        transfer_function_index=PresetTransferFunctions.tv_gamma,
    )
    vp_over = over.pop("video_parameters", {})
    vp.update(vp_over)
    cf = CodecFeatures(
        name="minimal",
        level=Levels.unconstrained,
        profile=Profiles.high_quality,
        picture_coding_mode=PictureCodingModes.pictures_are_frames,
        video_parameters=vp,
        wavelet_index=WaveletFilters.haar_with_shift,
        wavelet_index_ho=WaveletFilters.haar_with_shift,
        dwt_depth=1,
        dwt_depth_ho=0,
        slices_x=2,
        slices_y=1,
        fragment_slice_count=0,
        lossless=False,
        picture_bytes=24,
        quantization_matrix=None,
    )
    cf.update(over)
    return cf


def picture_dims(cf):
    from vc2_conformance.pseudocode.video_parameters import picture_dimensions, video_depth
    from vc2_conformance.pseudocode.state import State

    st = State(picture_coding_mode=cf["picture_coding_mode"])
    picture_dimensions(st, cf["video_parameters"])
    video_depth(st, cf["video_parameters"])
    return st


def make_pictures(cf, n, first_pic_num=None, fill=None):
    """n concrete pictures with a deterministic pattern."""
    st = picture_dims(cf)
    pics = []
    for i in range(n):
        p = {}
        for c, w, h, d in (
            ("Y", st["luma_width"], st["luma_height"], st["luma_depth"]),
            ("C1", st["color_diff_width"], st["color_diff_height"], st["color_diff_depth"]),
            ("C2", st["color_diff_width"], st["color_diff_height"], st["color_diff_depth"]),
        ):
            if fill is None:
                p[c] = [[(7 * x + 13 * y + 31 * i + 5) % (1 << d) for x in range(w)] for y in range(h)]
            else:
                p[c] = [[fill(c, x, y, i) % (1 << d) for x in range(w)] for y in range(h)]
        if first_pic_num is not None:
            p["pic_num"] = (first_pic_num + i) & 0xFFFFFFFF
        pics.append(p)
    return pics


def encode(cf, pictures, *patterns, **kw):
    """Encode + autofill + serialise with the real pipeline; returns bytes."""
    from vc2_conformance.encoder import make_sequence
    from vc2_conformance.bitstream import Stream, autofill_and_serialise_stream

    seq = make_sequence(cf, deepcopy(pictures), *patterns, **kw)
    f = io.BytesIO()
    autofill_and_serialise_stream(f, Stream(sequences=[seq]))
    return f.getvalue()


def decode(data, limit_pictures=None):
    """Run the real validator on bytes.  Returns (verdict, pictures) with verdict 'ok' or the exception."""
    from vc2_conformance.pseudocode.state import State
    from vc2_conformance.decoder import init_io, parse_stream

    pics = []

    def cb(pic, vp, pcm):
        pics.append((deepcopy(pic), dict(vp), pcm))

    st = State(_output_picture_callback=cb)
    init_io(st, io.BytesIO(data))
    try:
        parse_stream(st)
    except Exception as e:  # noqa
        return e, pics
    return "ok", pics


def data_unit_offsets(data):
    """Offsets of parse_info blocks by following the BBCD prefix + next_parse_offset chain (concrete)."""
    out = []
    off = 0
    while off + 13 <= len(data):
        assert data[off : off + 4] == b"BBCD", (off, data[off : off + 4])
        code = data[off + 4]
        npo = int.from_bytes(data[off + 5 : off + 9], "big")
        out.append((off, code, npo))
        if npo == 0:
            if code == 0x10:
                off += 13
                continue
            break
        off += npo
    return out
