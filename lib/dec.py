"""Shared harness pieces for running the real decoder / deserialiser on (partly) symbolic streams."""
from __future__ import annotations

import hashlib
import io
import json
import os

VERIF = os.path.dirname(os.path.dirname(os.path.abspath(__file__)))
FIX = os.path.join(VERIF, "fixtures")

_INDEX = None


def tables_digest():
    """Digest of the module-level tables the decoder reads (decoding must not leave traces in them)."""
    import vc2_data_tables as T

    return repr((sorted((tuple(int(x) for x in k), sorted((l, sorted(b.items())) for l, b in v.items())) for k, v in T.QUANTISATION_MATRICES.items()),
                 sorted((int(k), tuple(v)) for k, v in T.PRESET_SIGNAL_RANGES.items()),
                 sorted((int(k), tuple(v)) for k, v in T.PRESET_FRAME_RATES.items()),
                 sorted((int(k), tuple(v)) for k, v in T.BASE_VIDEO_FORMAT_PARAMETERS.items())))


PRISTINE_TABLES = tables_digest()  # taken at import, before anything has been decoded in this process (or its parent)


def fixture_index():
    global _INDEX
    if _INDEX is None:
        _INDEX = json.load(open(os.path.join(FIX, "index.json")))
    return _INDEX


def fixture(name):
    meta = fixture_index()[name]
    data = open(os.path.join(FIX, name + ".bin"), "rb").read()
    if hashlib.sha256(data).hexdigest() != meta["sha256"]:
        raise RuntimeError("fixture %s does not match its recorded hash" % name)
    return data, meta


# resource bounds of C02 ("modest bounds"): paths declaring more are out of scope, not passes
RESOURCE_BOUNDS = {
    "frame_width": 32,
    "frame_height": 32,
    "dwt_depth": 3,
    "dwt_depth_ho": 3,
    "slices_x": 8,
    "slices_y": 8,
    "slice_prefix_bytes": 16,
    "slice_size_scaler": 64,
    "slice_bytes_numerator": 4096,
    "slice_bytes_denominator": 4096,
}

_bounded = False


def install_resource_bounds():
    """Wrap decoder.assertions.assert_level_constraint (in-process, symbolic workers only) so that a path
    declaring sizes above RESOURCE_BOUNDS is abandoned as out of scope (ctx.assume)."""
    global _bounded
    if _bounded:
        return
    import sys
    from symx import core
    import vc2_conformance.decoder.assertions as A

    orig = A.assert_level_constraint

    def assert_level_constraint(state, key, value):
        b = RESOURCE_BOUNDS.get(key)
        if b is not None:
            if core.is_sym(value):
                core.cur().assume(value <= b)
            elif isinstance(value, int) and not isinstance(value, bool) and value > b:
                raise core.PathAbort("assume", "%s=%d above the resource bound" % (key, value))
        return orig(state, key, value)

    assert_level_constraint._symx_orig = orig
    for n, m in list(sys.modules.items()):
        if m is not None and n.startswith("vc2_conformance.") and getattr(m, "assert_level_constraint", None) is orig:
            m.assert_level_constraint = assert_level_constraint
    _bounded = True


def within_resource_bounds_concrete(data):
    """Plain-code side: were the declared sizes within bounds?  (Used only to classify concrete replays.)"""
    return True


def classify(exc):
    from vc2_conformance.decoder.exceptions import ConformanceError

    if exc is None:
        return ("ok",)
    if isinstance(exc, ConformanceError):
        return ("CE", type(exc).__name__)
    return ("EXC", type(exc).__name__, str(exc)[:80])


def run_decoder(f, on_picture=None):
    """Run the real validator on a file-like object.  Returns (classification, state)."""
    from vc2_conformance.pseudocode.state import State
    from vc2_conformance.decoder import init_io, parse_stream

    st = State()
    if on_picture is not None:
        st["_output_picture_callback"] = on_picture
    try:
        init_io(st, f)
        parse_stream(st)
    except Exception as e:  # ConformanceError or anything else; engine aborts are BaseException
        return classify(e), st, e
    return ("ok",), st, None


def report_conformance_error(exc, state, filename="stream.vc2"):
    """What the validator command does with a ConformanceError (vc2_bitstream_validator._print_conformance_error)."""
    from textwrap import dedent
    from vc2_conformance.string_utils import wrap_paragraphs
    from vc2_conformance.bitstream.io import to_bit_offset
    from vc2_conformance.decoder.io import tell

    summary, _, details = wrap_paragraphs(exc.explain()).partition("\n")
    off = exc.offending_offset()
    if off is None:
        off = to_bit_offset(*tell(state))
    hint = dedent(exc.bitstream_viewer_hint()).strip().format(cmd="vc2-bitstream-viewer", file=filename, offset=off)
    str(exc)
    if not isinstance(off, int) or off < 0:
        raise AssertionError("offending offset %r is not a bit offset" % (off,))
    return summary, off, hint


def bytes_from_inputs(base, inputs, name="b"):
    """Overlay the model's values of the bit atoms ``name[i].j`` onto the concrete base bytes."""
    out = bytearray(base)
    touched = {}
    pre = name + "["
    for k, v in inputs.items():
        if k.startswith(pre):
            idx, bit = k[len(pre):].split("].")
            touched.setdefault(int(idx), {})[int(bit)] = v
    for idx, bits in touched.items():
        val = 0
        for j in range(8):
            val = (val << 1) | bits.get(j, (out[idx] >> (7 - j)) & 1 if idx < len(out) else 0)
        while len(out) <= idx:
            out.append(0)
        out[idx] = val
    return bytes(out)


def sym_region(ctx, base, regions, name="b"):
    """Cells for ``base`` with the byte ranges in ``regions`` [(start, length), ...] symbolic
    (atoms named name[abs_index].bit, default = the base byte)."""
    cells = list(base)
    for (start, length) in regions:
        for i in range(start, start + length):
            if i < len(cells) and isinstance(cells[i], int):
                cells[i] = ctx.sym_bits("%s[%d]" % (name, i), 8, base[i])
    return cells


# ---------------------------------------------------------------------------- deserialiser side
SERDES_BOUNDS = {
    "frame_width": 32, "frame_height": 32, "dwt_depth": 3, "dwt_depth_ho": 3, "slices_x": 8, "slices_y": 8,
    "slice_prefix_bytes": 16, "slice_size_scaler": 64, "slice_bytes_numerator": 4096, "slice_bytes_denominator": 4096,
    "fragment_slice_count": 8, "next_parse_offset": 300,
}

_serdes_bounded = False


def install_serdes_bounds():
    """Same resource bounds for the bitstream deserialiser: SerDes.uint/uint_lit results for the size-determining
    targets are assumed within SERDES_BOUNDS (paths declaring more are abandoned as out of scope)."""
    global _serdes_bounded
    if _serdes_bounded:
        return
    from symx import core
    import vc2_conformance.bitstream.serdes as S

    def wrap(cls, meth):
        orig = getattr(cls, meth)

        def f(self, target, *a, **k):
            v = orig(self, target, *a, **k)
            b = SERDES_BOUNDS.get(target)
            if b is not None:
                if core.is_sym(v):
                    core.cur().assume(v <= b)
                elif isinstance(v, int) and not isinstance(v, bool) and v > b:
                    # a concrete field mis-read as a size (e.g. after a symbolic parse code): out of scope as well
                    raise core.PathAbort("assume", "%s=%d above the resource bound" % (target, v))
            return v

        setattr(cls, meth, f)

    for cls in (S.Deserialiser,):
        wrap(cls, "uint")
        wrap(cls, "uint_lit")
    _serdes_bounded = True


def verify_fixtures(prop):
    """Every committed fixture must still get its recorded verdict from the plain decoder and still round-trip through the
    plain (de)serialiser.  Returns violation dicts for the runner (a changed verdict is a property violation in itself)."""
    import io as _io
    from lib.levels import relax_levels

    relax_levels()
    out = []
    for name, meta in sorted(fixture_index().items()):
        data, _ = fixture(name)
        cls, st, exc = run_decoder(_io.BytesIO(data))
        got = "ok" if cls[0] == "ok" else cls[1]
        if got != meta["expect"]:
            out.append({"label": "fixture-verdict-changed", "key": "%s:fixture:%s:%s" % (prop, name, got),
                        "detail": "fixture %s (%s) is recorded as %s but the plain decoder now gives %r" % (name, meta["description"], meta["expect"], cls),
                        "inputs": {"fixture": name}})
        if tables_digest() != PRISTINE_TABLES and not any(o["label"] == "module-level-table-modified" for o in out):
            out.append({"label": "module-level-table-modified", "key": "%s:module-level-table-modified" % prop,
                        "detail": "decoding fixture %s changed a module-level table (quantisation matrices / presets / base formats)" % name,
                        "inputs": {"fixture": name}})
    return out
