"""C13 -- slices tile every subband; low-delay slice byte counts sum exactly.

Real code: all of pseudocode/slice_sizes.py.
Symbolic: luma/colour-difference width and height (unbounded, >= 1), slice_bytes_numerator (>= 0) and
slice_bytes_denominator (> 0, symbolic where z3 decides the non-linear query, concrete otherwise).
Enumerated: transform depths, level, component, slice counts and slice indices.
"""
from __future__ import annotations

import z3

from symx.core import SymBool, compare0, is_sym

PROPERTY_ID = "C13"
LEVEL = "model_checking"
RULE = (
    "task = (dwt_depth, dwt_depth_ho); a symbolic selector enumerates (slices_x, slices_y); component sizes are unbounded "
    "symbolic integers; obligations: slice bounds start at 0, end at the subband size, are ordered and contiguous in x and y "
    "for every level/component; subband size * scale = padded size, 0 <= padded - size < scale; the same-dimensions flag "
    "equals the conjunction of all slice-extent equalities; slice_bytes >= 0 and telescopes to floor(n*num/den)"
)
BOUNDS = {
    "quick": "depths 0..4 x 0..4 (sum <= 6); slices_x, slices_y in 1..8; sizes: any integer >= 1; slice_bytes: numerator any integer >= 0, denominator 1..64 concrete plus fully symbolic denominator for <= 4x2 slices",
    "thorough": "depths 0..4 x 0..4; slices_x, slices_y in 1..16; sizes: any integer >= 1; denominator 1..256 concrete plus symbolic for <= 6x3 slices",
}
OUTSIDE = "slice counts and denominators above the box for the per-index obligations"
ASSUMPTIONS = ["sizes >= 1, numerator >= 0, denominator >= 1 (documented domains of the stream fields)"]
STUBS = ["abs/min/max/range shadowed in vc2_conformance module namespaces (delegate to builtins on concrete values)"]
BUDGET_S = {"quick": 420, "thorough": 2400}
IFCONV = False
ENGINE_OPTS = {"query_timeout_ms": 30000}


def tasks(tier, seed):
    out = []
    smax = 8 if tier == "quick" else 16
    for d in range(5):
        for dh in range(5):
            if tier == "quick" and d + dh > 6:
                continue
            for sx0 in range(1, smax + 1, 4):
                out.append({"id": "geom d%d/%d sx%d.." % (d, dh, sx0), "harness": "geom", "args": (d, dh, list(range(sx0, min(smax, sx0 + 3) + 1)), smax)})
    dmax = 64 if tier == "quick" else 256
    for den0 in range(1, dmax + 1, 8):
        out.append({"id": "bytes den%d.." % den0, "harness": "bytes", "args": (list(range(den0, den0 + 8)), smax)})
    for (nx, ny) in ([(1, 1), (2, 1), (3, 2), (4, 2)] if tier == "quick" else [(1, 1), (2, 1), (3, 2), (4, 2), (5, 3), (6, 3)]):
        out.append({"id": "bytes symbolic den %dx%d" % (nx, ny), "harness": "bytes_symden", "args": (nx, ny)})
    return out


def _and(conds):
    """Conjunction of bool/SymBool."""
    zs = []
    cv = True
    for c in conds:
        if isinstance(c, SymBool):
            zs.append(c.z())
            cv = cv and c.cv
        elif not c:
            return False
    if not zs:
        return True
    return SymBool.formula(z3.And(zs) if len(zs) > 1 else zs[0], cv)


def _iff(a, b):
    if not isinstance(a, SymBool) and not isinstance(b, SymBool):
        return bool(a) == bool(b)
    if not isinstance(a, SymBool):
        return b if a else b.negate()
    if not isinstance(b, SymBool):
        return a if b else a.negate()
    return SymBool.formula(a.z() == b.z(), a.cv == b.cv)


def build(task):
    from vc2_conformance.pseudocode import slice_sizes as SS

    if task["harness"] == "geom":
        d, dh, sxs, smax = task["args"]
        cases = [(sx, sy) for sx in sxs for sy in range(1, smax + 1)]
        # representative (first-path) sizes: small for most task groups, beyond float precision for the group starting at
        # 5 slices (the sizes are unbounded symbolic integers either way; this only chooses where exploration starts)
        dflt = (13, 7, 6, 4) if sxs[0] != 5 else ((1 << 53) + 1, (1 << 64) + 3, (1 << 53) + 5, (1 << 60) + 1)

        def h(ctx):
            i = ctx.concretize(ctx.sym_int("sel", 0, len(cases) - 1))
            nx, ny = cases[i]
            st = {
                "luma_width": ctx.sym_int("lw", 1, None, default=dflt[0]),
                "luma_height": ctx.sym_int("lh", 1, None, default=dflt[1]),
                "color_diff_width": ctx.sym_int("cw", 1, None, default=dflt[2]),
                "color_diff_height": ctx.sym_int("ch", 1, None, default=dflt[3]),
                "dwt_depth": d, "dwt_depth_ho": dh, "slices_x": nx, "slices_y": ny,
            }
            extent_eqs = []
            for comp, wk, hk in (("Y", "luma_width", "luma_height"), ("C1", "color_diff_width", "color_diff_height"), ("C2", "color_diff_width", "color_diff_height")):
                w, hgt = st[wk], st[hk]
                scale_w, scale_h = 1 << (d + dh), 1 << d
                for level in range(0, d + dh + 1):
                    sw = SS.subband_width(st, level, comp)
                    sh = SS.subband_height(st, level, comp)
                    # padded picture relation
                    fw = (1 << (d + dh)) if level == 0 else (1 << (d + dh - level + 1))
                    fh = (1 << d) if level <= dh else (1 << (d + dh - level + 1))
                    pw, ph = sw * fw, sh * fh
                    tag = [comp, level, nx, ny]
                    ctx.prove_all([pw >= w, pw - w < scale_w, ph >= hgt, ph - hgt < scale_h], "padded-size", tag)
                    # all levels describe the same padded picture
                    if level > 0:
                        ctx.prove_all([pw == SS.subband_width(st, 0, comp) * scale_w, ph == SS.subband_height(st, 0, comp) * scale_h], "levels-agree", tag)
                    conds = [SS.slice_left(st, 0, comp, level) == 0, SS.slice_top(st, 0, comp, level) == 0,
                             SS.slice_right(st, nx - 1, comp, level) == sw, SS.slice_bottom(st, ny - 1, comp, level) == sh]
                    for sx in range(nx):
                        l, r = SS.slice_left(st, sx, comp, level), SS.slice_right(st, sx, comp, level)
                        conds.append(l <= r)
                        if sx + 1 < nx:
                            conds.append(r == SS.slice_left(st, sx + 1, comp, level))
                        extent_eqs.append((r - l) == (SS.slice_right(st, 0, comp, level) - SS.slice_left(st, 0, comp, level)))
                    for sy in range(ny):
                        t, b = SS.slice_top(st, sy, comp, level), SS.slice_bottom(st, sy, comp, level)
                        conds.append(t <= b)
                        if sy + 1 < ny:
                            conds.append(b == SS.slice_top(st, sy + 1, comp, level))
                        extent_eqs.append((b - t) == (SS.slice_bottom(st, 0, comp, level) - SS.slice_top(st, 0, comp, level)))
                    ctx.prove_all(conds, "tiling", tag)
            flag = SS.slices_have_same_dimensions(st)
            flag = bool(flag)  # forks exactly as the real function's callers do
            allsame = _and(extent_eqs)
            ctx.prove(allsame if flag else (allsame.negate() if isinstance(allsame, SymBool) else not allsame), "same-dimensions-flag", [nx, ny, flag])
            return "%dx%d flag=%s" % (nx, ny, flag)

        return h

    if task["harness"] == "bytes":
        dens, smax = task["args"]
        shapes = [(1, 1), (2, 1), (3, 2), (smax, 1), (5, 3), (smax, smax // 2)]
        cases = [(den, nx, ny) for den in dens for (nx, ny) in shapes]

        def hb(ctx):
            i = ctx.concretize(ctx.sym_int("sel", 0, len(cases) - 1))
            den, nx, ny = cases[i]
            num = ctx.sym_int("num", 0, None, default=den * 3 + 1)
            st = {"slices_x": nx, "slices_y": ny, "slice_bytes_numerator": num, "slice_bytes_denominator": den}
            total = 0
            conds = []
            for sy in range(ny):
                for sx in range(nx):
                    b = SS.slice_bytes(st, sx, sy)
                    conds.append(b >= 0)
                    total = total + b
            ctx.prove_all(conds, "slice-bytes-nonneg", [den, nx, ny])
            ctx.prove_eq(total, (nx * ny * num) // den, "slice-bytes-sum %d %dx%d" % (den, nx, ny))
            return "den=%d %dx%d" % (den, nx, ny)

        return hb

    nx, ny = task["args"]

    def hs(ctx):
        num = ctx.sym_int("num", 0, None, default=37)
        den = ctx.sym_int("den", 1, None, default=5)
        st = {"slices_x": nx, "slices_y": ny, "slice_bytes_numerator": num, "slice_bytes_denominator": den}
        total = 0
        conds = []
        for sy in range(ny):
            for sx in range(nx):
                b = SS.slice_bytes(st, sx, sy)
                conds.append(b >= 0)
                total = total + b
        ctx.prove_all(conds, "slice-bytes-nonneg-symden", [nx, ny])
        ctx.prove_eq(total, (nx * ny * num) // den, "slice-bytes-sum-symden %dx%d" % (nx, ny))
        return "symden %dx%d" % (nx, ny)

    return hs


def _concrete_check(st, d, dh, nx, ny, SS):
    """Plain-code version of all geometric obligations; returns the name of the first that fails."""
    extents_equal = True
    for comp, wk, hk in (("Y", "luma_width", "luma_height"), ("C1", "color_diff_width", "color_diff_height"), ("C2", "color_diff_width", "color_diff_height")):
        w, hgt = st[wk], st[hk]
        for level in range(0, d + dh + 1):
            sw, sh = SS.subband_width(st, level, comp), SS.subband_height(st, level, comp)
            fw = (1 << (d + dh)) if level == 0 else (1 << (d + dh - level + 1))
            fh = (1 << d) if level <= dh else (1 << (d + dh - level + 1))
            pw, ph = sw * fw, sh * fh
            if not (pw >= w and pw - w < (1 << (d + dh)) and ph >= hgt and ph - hgt < (1 << d)):
                return "padded-size"
            if pw != SS.subband_width(st, 0, comp) << (d + dh) or ph != SS.subband_height(st, 0, comp) << d:
                return "levels-agree"
            xs = [(SS.slice_left(st, sx, comp, level), SS.slice_right(st, sx, comp, level)) for sx in range(nx)]
            ys = [(SS.slice_top(st, sy, comp, level), SS.slice_bottom(st, sy, comp, level)) for sy in range(ny)]
            for seq, size in ((xs, sw), (ys, sh)):
                if seq[0][0] != 0 or seq[-1][1] != size or any(a > b for a, b in seq) or any(seq[i][1] != seq[i + 1][0] for i in range(len(seq) - 1)):
                    return "tiling"
                if any(b - a != seq[0][1] - seq[0][0] for a, b in seq):
                    extents_equal = False
    if bool(SS.slices_have_same_dimensions(st)) != extents_equal:
        return "same-dimensions-flag"
    return None


def validate(task, inputs, outcome):
    return None


def replay(task, label, inputs, extra):
    from vc2_conformance.pseudocode import slice_sizes as SS

    if task["harness"] == "geom":
        d, dh, sxs, smax = task["args"]
        cases = [(sx, sy) for sx in sxs for sy in range(1, smax + 1)]
        # representative (first-path) sizes: small for most task groups, beyond float precision for the group starting at
        # 5 slices (the sizes are unbounded symbolic integers either way; this only chooses where exploration starts)
        dflt = (13, 7, 6, 4) if sxs[0] != 5 else ((1 << 53) + 1, (1 << 64) + 3, (1 << 53) + 5, (1 << 60) + 1)
        nx, ny = cases[inputs["sel"]]
        st = {"luma_width": inputs["lw"], "luma_height": inputs["lh"], "color_diff_width": inputs["cw"], "color_diff_height": inputs["ch"],
              "dwt_depth": d, "dwt_depth_ho": dh, "slices_x": nx, "slices_y": ny}
        bad = _concrete_check(st, d, dh, nx, ny, SS)
        return {"reproduced": bad is not None, "key": "C13:%s" % bad, "detail": "state=%r" % (st,)}
    if task["harness"] == "bytes":
        dens, smax = task["args"]
        shapes = [(1, 1), (2, 1), (3, 2), (smax, 1), (5, 3), (smax, smax // 2)]
        cases = [(den, nx, ny) for den in dens for (nx, ny) in shapes]
        den, nx, ny = cases[inputs["sel"]]
    else:
        nx, ny = task["args"]
        den = inputs["den"]
    num = inputs["num"]
    st = {"slices_x": nx, "slices_y": ny, "slice_bytes_numerator": num, "slice_bytes_denominator": den}
    bs = [SS.slice_bytes(st, sx, sy) for sy in range(ny) for sx in range(nx)]
    bad = None
    if any(b < 0 for b in bs):
        bad = "slice-bytes-nonneg"
    elif sum(bs) != (nx * ny * num) // den:
        bad = "slice-bytes-sum"
    return {"reproduced": bad is not None, "key": "C13:%s" % bad, "detail": "num=%d den=%d slices %dx%d bytes=%r" % (num, den, nx, ny, bs)}


def canaries():
    def slice_right_rounds_up():
        from vc2_conformance.pseudocode import slice_sizes as SS

        def slice_right(state, sx, c, level):
            n = state["slices_x"]
            return (SS.subband_width(state, level, c) * (sx + 1) + (n - 1 if (level == 2 and sx == 1) else 0)) // n

        SS.slice_right = slice_right

    def same_dims_ignores_chroma_height():
        from vc2_conformance.pseudocode import slice_sizes as SS

        def slices_have_same_dimensions(state):
            return (
                SS.subband_width(state, 0, "Y") % state["slices_x"] == 0
                and SS.subband_height(state, 0, "Y") % state["slices_y"] == 0
                and SS.subband_width(state, 0, "C1") % state["slices_x"] == 0
            )

        SS.slices_have_same_dimensions = slices_have_same_dimensions

    def subband_height_ho_level():
        from vc2_conformance.pseudocode import slice_sizes as SS

        orig = SS.subband_height

        def subband_height(state, level, comp):
            if 0 < level <= state["dwt_depth_ho"] and state["dwt_depth"] == 3:
                h = state["luma_height"] if comp == "Y" else state["color_diff_height"]
                s = 1 << state["dwt_depth"]
                return (s * ((h + s - 1) // s)) // (1 << (state["dwt_depth"] - 1))
            return orig(state, level, comp)

        SS.subband_height = subband_height

    def slice_bytes_off():
        from vc2_conformance.pseudocode import slice_sizes as SS

        def slice_bytes(state, sx, sy):
            n = (sy * state["slices_x"]) + sx
            b = ((n + 1) * state["slice_bytes_numerator"]) // state["slice_bytes_denominator"]
            b -= (n * state["slice_bytes_numerator"] + (1 if n == 3 else 0)) // state["slice_bytes_denominator"]
            return b

        SS.slice_bytes = slice_bytes

    return [("slice_right_rounds_up", slice_right_rounds_up), ("same_dims_ignores_chroma_height", same_dims_ignores_chroma_height),
            ("subband_height_ho_level", subband_height_ho_level), ("slice_bytes_off", slice_bytes_off)]
