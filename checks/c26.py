"""C26 -- the bitstream viewer never reports an internal error.

Real code: vc2_conformance.scripts.vc2_bitstream_viewer (main, parse_args, BitstreamViewer.run, the monitor __call__,
_print_value, format_value_line, is_internal_error, ...), string_formatters, and below it the MonitoredDeserialiser,
bitstream/vc2.py and bitstream/io.py.

Symbolic: every bit of chosen byte regions of committed fixture streams, a stream prefix, and the truncation point.  The real
main() runs on the symbolic file; on every path the return code must be 0, 2, 3 or 4 (never 255, never an escaping
exception).  Each path's model is written to a real file and the real command is run on it: same return code.
"""
from __future__ import annotations

import random

from lib import dec, cmds
from symx.symfile import SymFile

PROPERTY_ID = "C26"
LEVEL = "model_checking"
RULE = (
    "task = (fixture stream, symbolic byte region or truncation point, option set); every path of the real viewer main() over all "
    "values of the region's bits is explored; the return code must be one of 0 (normal), 2 (bad parse-info prefix), 3 (end of file), "
    "4 (parse failure) -- 255 (internal error) or an exception escaping main() is a violation, witness = the bytes; each path's model is "
    "then run through the real command on a real file, which must return the same code"
)
BOUNDS = {
    "quick": "8 fixtures; regions: parse code + next_parse_offset (5 bytes) of every unit, every 1-byte window of the first sequence header, the C06 quick windows inside picture/fragment/padding units narrowed to 1 byte, the 4 prefix bytes of the first two units, a 6-byte stream prefix, truncation anywhere; default options, plus --show-internal-state / --verbose / --hide slice / --from-offset --to-offset option sets on the parse-info regions of 3 fixtures; declared sizes <= dec.SERDES_BOUNDS",
    "thorough": "all fixtures; the C06 quick region set, windows inside data units 2 bytes wide on 6 fixtures and 1 byte elsewhere; 8-byte stream prefix on 2 fixtures; option sets on the first 4 parse-info regions and the truncation point of every second fixture",
}
OUTSIDE = (
    "regions larger than the bound; streams declaring sizes above the serdes resource bounds; text rendering of symbolic values is "
    "executed for each path's representative value only (ENGINE_OPTS format_shadow): a formatter failure that depends on a value "
    "without any branch of the Python code depending on it is outside the claim (each representative is also run through the real command); "
    "terminal width other than the fallback; file-system failures"
)
ASSUMPTIONS = [
    "open() and os.path.getsize are replaced in the command module's namespace on the symbolic side (SymFile and its size); the plain side uses real files",
    "Deserialiser.uint/uint_lit are wrapped in-process: paths declaring sizes above dec.SERDES_BOUNDS are abandoned as out of scope",
]
STUBS = ["SymFile behind open()", "os.path.getsize", "bytearray/bitarray stand-ins in vc2_conformance.bitstream.io"]
BUDGET_S = {"quick": 900, "thorough": 3400}
ENGINE_OPTS = {"max_decisions": 20000, "format_shadow": True}
REPLAYS_PER_LABEL = 2
IFCONV = ["write_bit"]

OPTION_SETS = [
    ("internal-state", ["--show-internal-state"]),
    ("verbose", ["-vv", "--num-trailing-bits", "24"]),
    ("hide-slices", ["--hide", "slice", "--no-status"]),
    ("show-headers", ["--show", "parse_info", "--show", "sequence_header"]),
    ("window", ["--from-offset", "40", "--to-offset", "+200"]),
    ("from-end", ["--offset", "-64", "--context", "48", "--ignore-parse-info-prefix"]),
]
OPTION_FIXTURES = ["hq_min", "ld_frag", "hq_padaux_payload"]
ALLOWED = (0, 2, 3, 4)
WIDE_FIXTURES = ["hq_min", "ld_min", "hq_fields", "hq_frag", "hq_padaux_payload", "two_sequences"]  # thorough: full-width windows on these
QUICK_FIXTURES = ["hq_min", "ld_min", "hq_frag", "ld_frag", "hq_fields", "hq_padaux_payload", "two_sequences", "hq_v3_pics"]


def precheck():
    return []


def tasks(tier, seed):
    from checks import c06

    rnd = random.Random(seed)
    idx = dec.fixture_index()
    quick = tier == "quick"
    names = sorted(idx) if not quick else QUICK_FIXTURES
    out = []
    for name in names:
        meta = idx[name]
        pis = []
        for label, regions in c06._regions(name, meta, "quick", rnd):  # C06's thorough region set is far beyond this check's budget
            if not label.startswith("code+npo") and (quick or name not in WIDE_FIXTURES):
                regions = [(s, 1) for (s, n) in regions]  # quick: one-byte windows inside data units
            out.append({"id": "%s/%s" % (name, label), "harness": "region", "args": (name, regions, [])})
            if label.startswith("code+npo"):
                pis.append((label, regions))
        units = meta["units"]
        for i in range(min(2, len(units))):
            out.append({"id": "%s/prefix%d" % (name, i), "harness": "region", "args": (name, [(units[i][0], 4)], [])})
        out.append({"id": "%s/truncate" % name, "harness": "truncate", "args": (name, [])})
        if name in OPTION_FIXTURES or (not quick and names.index(name) % 2 == 0):
            for oname, argv in OPTION_SETS:
                out.append({"id": "%s/truncate/%s" % (name, oname), "harness": "truncate", "args": (name, argv)})
                for label, regions in (pis[:3] if quick else pis[:4]):
                    out.append({"id": "%s/%s/%s" % (name, label, oname), "harness": "region", "args": (name, regions, argv)})
    for name in (["hq_min"] if quick else ["hq_min", "ld_frag"]):
        out.append({"id": "%s/stream-prefix" % name, "harness": "region", "args": (name, [(0, 6 if quick else 8)], [])})
    return out


def _judge(ctx, f, size, argv):
    try:
        rc, out, err = cmds.run_viewer(f, size, argv)
    except Exception as e:  # engine aborts are BaseException and pass through
        ctx.fail("exception-escapes-main", [type(e).__name__, str(e)[:200]])
        return ["raised", type(e).__name__]
    if rc not in ALLOWED:
        ctx.fail("internal-error-status" if rc == 255 else "unexpected-status", [rc, err[-300:]])
    return [rc]


def build(task):
    dec.install_serdes_bounds()
    name = task["args"][0]
    data, meta = dec.fixture(name)

    if task["harness"] == "region":
        regions, argv = task["args"][1], task["args"][2]

        def h(ctx):
            cells = dec.sym_region(ctx, data, regions)
            return _judge(ctx, SymFile(cells), len(cells), argv)

        return h

    argv = task["args"][1]

    def ht(ctx):
        cut = ctx.concretize(ctx.sym_int("cut", 0, len(data), default=len(data)))
        return _judge(ctx, SymFile(list(data[:cut])), cut, argv)

    return ht


def _concrete(task, inputs):
    name = task["args"][0]
    data, meta = dec.fixture(name)
    if task["harness"] == "truncate":
        return data[: inputs.get("cut", len(data))], task["args"][1]
    return dec.bytes_from_inputs(data, inputs), task["args"][2]


def _plain(task, inputs):
    import os

    b, argv = _concrete(task, inputs)
    with cmds.scratch_dir() as d:
        fn = os.path.join(d, "stream.vc2")
        with open(fn, "wb") as f:
            f.write(b)
        rc, out, err = cmds.real_main("vc2_conformance.scripts.vc2_bitstream_viewer", [fn] + list(argv))
    return b, rc, err


def validate(task, inputs, outcome):
    b, rc, err = _plain(task, inputs)
    if rc not in ALLOWED:
        lab = "internal-error-status" if rc == 255 else ("exception-escapes-main" if isinstance(rc, tuple) else "unexpected-status")
        return {"label": lab, "key": "C26:%s:%s" % (lab, _where(err, rc)), "detail": "exit %r on stream %s options %r: %s" % (rc, b.hex(), task["args"][-1], err[-300:])}
    if [rc] != list(outcome):
        return "symbolic path predicted %r, real command gives %r on %s" % (outcome, rc, b.hex())
    return None


def _where(err, rc):
    import re

    if isinstance(rc, tuple):
        return "%s" % (rc[1],)
    m = re.search(r"internal error in bitstream viewer: (\w+)", err)
    return m.group(1) if m else "?"


def replay(task, label, inputs, extra):
    b, rc, err = _plain(task, inputs)
    bad = rc not in ALLOWED
    lab = "internal-error-status" if rc == 255 else ("exception-escapes-main" if isinstance(rc, tuple) else "unexpected-status")
    return {"reproduced": bad, "key": "C26:%s:%s" % (lab, _where(err, rc)) if bad else None,
            "detail": "exit %r on stream %s options %r: %s" % (rc, b.hex(), task["args"][-1], err[-300:])}


def MIN_REACH(outcomes, per_task, tasks):
    import json

    seen = set()
    for k in outcomes:
        try:
            seen.add(json.loads(k)[0])
        except Exception:
            pass
    missing = [rc for rc in ALLOWED if rc not in seen]
    if missing:
        return "return codes never reached: %r" % missing
    empty = [t["id"] for t in tasks if per_task.get(t["id"], 0) == 0]
    if empty:
        return "tasks without any explored path: %r" % empty[:5]
    return None


def canaries():
    def empty_value_has_no_first_line():
        import vc2_conformance.scripts.vc2_bitstream_viewer as W

        def format_value_line(offset, raw_bits, label, label_filler="", truncated=False):
            lines = W.wrap(raw_bits.to01() + ("*" if truncated else ""), W.RAW_BITS_PER_LINE)
            out = ["{:0{}d}: {:<{}s}    {}".format(offset, W.OFFSET_DIGITS, lines[0], W.RAW_BITS_PER_LINE, label)]
            for line in lines[1:]:
                out.append("{}  {:<{}s}    {}".format(" " * W.OFFSET_DIGITS, line, W.RAW_BITS_PER_LINE, label_filler))
            return "\n".join(out)

        W.format_value_line = format_value_line

    def pseudocode_errors_classified_internal():
        import vc2_conformance.scripts.vc2_bitstream_viewer as W

        def is_internal_error(tb):
            return any(fs[0] == W._this_script_filename for fs in W.traceback.extract_tb(tb))

        W.is_internal_error = is_internal_error

    def past_end_marker_assumes_a_block():
        import vc2_conformance.scripts.vc2_bitstream_viewer as W

        orig = W.BitstreamViewer._print_value

        def _print_value(self, offset, raw_bits, target, value):
            if target == "parse_code" and value not in (0x00, 0x10, 0x20, 0x30, 0xE8, 0xC8, 0xEC, 0xCC) and value & 0x0F == 0x0D:
                self._reader.bits_remaining < 0  # TypeError outside a bounded block (None < 0)
            return orig(self, offset, raw_bits, target, value)

        W.BitstreamViewer._print_value = _print_value

    return [("empty_value_has_no_first_line", empty_value_has_no_first_line),
            ("pseudocode_errors_classified_internal", pseudocode_errors_classified_internal),
            ("past_end_marker_assumes_a_block", past_end_marker_assumes_a_block)]
