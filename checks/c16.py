"""C16 -- the encoder respects any level table it claims to satisfy.

Real code: encoder (make_sequence, iter_sequence_headers, decide_extended_transform_flag, picture generation,
make_matching_sequence), codec_features_to_trivial_level_constraints, constraint_table, the serialiser and the whole
validator (assert_level_constraint, level sequence matcher).

Selector-symbolic (2.7 of DESIGN.md): the cells of a level table live in hash-keyed ValueSets, so a symbolic cell is
concretised on first use; the solver therefore enumerates *which* synthetic single-column table is installed, not the
cell values.  A table is described by (codec configuration, ordering pattern, one or two constrained keys, a
restriction variant per key); the variants are derived from the values the validator actually checks for that key on
the unconstrained encoding ("observed" values): exactly the observed values, a superset, a range around them, and
values the stream does not use (flag flipped, neighbouring numbers), which force the encoder either to adapt (e.g.
custom_*_flag forced on) or to raise an unsatisfiable-configuration error.
"""
from __future__ import annotations

import io
import random
from copy import deepcopy

PROPERTY_ID = "C16"
LEVEL = "exploration"
RULE = (
    "case = (codec configuration, ordering pattern, constrained key(s), restriction variant per key) chosen by solver-enumerated "
    "selectors; the synthetic single-column table (every other key unconstrained) and the ordering pattern are installed as level 1 "
    "in the repository's LEVEL_CONSTRAINTS / LEVEL_SEQUENCE_RESTRICTIONS; the real make_sequence runs: an UnsatisfiableCodecFeaturesError "
    "puts the case outside the property; otherwise the serialised stream must be accepted by the real validator under the same table; "
    "non-trivial = the restriction differs from the values used by the unconstrained encoding"
)
BOUNDS = {
    "quick": "8 configurations (HQ/LD, fragments, fields, lossless, custom quantisation matrix, asymmetric transform, 4:2:2 10 bit with custom signal range) x 2 ordering patterns x every constrained key (56) x up to 5 variants; curated pairs (extended-transform flag x transform value key, all variants) per configuration; 150 seeded pairs of keys",
    "thorough": "10 configurations x 5 ordering patterns x every key x up to 7 variants; curated extended-transform pairs; 2500 seeded pairs of keys",
}
OUTSIDE = "tables with more than two restricted keys or several columns; configurations outside the catalogue; the real level tables are checked under C15"
ASSUMPTIONS = [
    "the synthetic table replaces the rows of level 1 in the module-level LEVEL_CONSTRAINTS list in-process (what the test suite does with its alternative level definition); restored after every case",
    "exceptions of the encoder other than UnsatisfiableCodecFeaturesError are recorded as outcome classes, not judged (the property speaks about sequences the encoder produces)",
    "documented precondition (encoder/__init__.py 'Level constraints'): the CodecFeatures themselves comply with the level; restrictions that exclude the configuration's own values are applied only to the keys whose coding the encoder chooses (sequence-header parameters, extended-transform flags); for keys fixed by the CodecFeatures (versions, transform and slice parameters, quantisation matrix values, qindex) only restrictions admitting the configuration's values are explored",
]
STUBS = []
BUDGET_S = {"quick": 600, "thorough": 3000}
IFCONV = False
REPLAYS_PER_LABEL = 3
REPLAY_CAP = 3000

GENERIC = "sequence_header ( (sequence_header | auxiliary_data | padding_data | low_delay_picture | high_quality_picture)* | (sequence_header | auxiliary_data | padding_data | low_delay_picture_fragment | high_quality_picture_fragment)*) end_of_sequence"
PATTERNS = [
    GENERIC,
    "(sequence_header (low_delay_picture | high_quality_picture | low_delay_picture_fragment | high_quality_picture_fragment))* end_of_sequence",
    "sequence_header (padding_data .)* end_of_sequence",
    "(sequence_header . .)* end_of_sequence",
    "sequence_header sequence_header .* auxiliary_data end_of_sequence",
]


def _configs():
    from lib.streams import minimal_codec_features
    from vc2_data_tables import Profiles, WaveletFilters, ColorDifferenceSamplingFormats, SourceSamplingModes, PictureCodingModes, Levels

    out = [
        ("hq", dict()),
        ("ld", dict(profile=Profiles.low_delay, picture_bytes=40)),
        ("hq-frag", dict(fragment_slice_count=1)),
        ("hq-fields", dict(picture_coding_mode=PictureCodingModes.pictures_are_fields)),
        ("hq-lossless", dict(lossless=True, picture_bytes=None)),
        ("hq-asym", dict(wavelet_index_ho=WaveletFilters.le_gall_5_3, dwt_depth_ho=1, quantization_matrix={0: {"L": 2}, 1: {"H": 1}, 2: {"LH": 1, "HL": 1, "HH": 0}})),
        ("hq-422-10bit", dict(video_parameters=dict(color_diff_format_index=ColorDifferenceSamplingFormats.color_4_2_2, luma_offset=64, luma_excursion=876, color_diff_offset=512, color_diff_excursion=896))),
        ("ld-frag", dict(profile=Profiles.low_delay, picture_bytes=40, fragment_slice_count=2)),
        ("hq-custom-qm", dict(quantization_matrix={0: {"LL": 1}, 1: {"LH": 2, "HL": 2, "HH": 3}})),
        ("hq-interlaced", dict(video_parameters=dict(source_sampling=SourceSamplingModes.interlaced, top_field_first=False))),
    ]
    res = []
    for name, over in out:
        over = dict(over)
        over["level"] = Levels(1)
        try:
            cf = minimal_codec_features(**over)
        except Exception:
            continue
        res.append((name, cf))
    return res


_CFG = None


def configs():
    global _CFG
    if _CFG is None:
        _CFG = _configs()
    return _CFG


class _Row(dict):
    pass


class installed(object):
    """Context manager: level 1 := one synthetic column + ordering pattern (in the repository's module-level tables)."""

    def __init__(self, restrictions, pattern):
        self.restrictions = restrictions
        self.pattern = pattern

    def __enter__(self):
        from vc2_conformance.level_constraints import LEVEL_CONSTRAINTS, LEVEL_SEQUENCE_RESTRICTIONS, LevelSequenceRestrictions
        from vc2_conformance.constraint_table import ValueSet, AnyValue

        self.saved_rows = list(LEVEL_CONSTRAINTS)
        self.saved_seq = LEVEL_SEQUENCE_RESTRICTIONS.get(1)
        keys = []
        for row in LEVEL_CONSTRAINTS:
            for k in row:
                if k not in keys:
                    keys.append(k)
        rows = []
        for row in LEVEL_CONSTRAINTS:
            if 1 in row.get("level", ValueSet()):
                others = [v for v in row["level"].iter_values() if v != 1]
                if not others:
                    continue
                row = dict(row)
                row["level"] = ValueSet(*others)
            rows.append(row)
        new = _Row((k, AnyValue()) for k in keys)
        new["level"] = ValueSet(1)
        for k, spec in self.restrictions:
            new[k] = ValueSet(*spec)
        rows.append(new)
        LEVEL_CONSTRAINTS[:] = rows
        LEVEL_SEQUENCE_RESTRICTIONS[1] = LevelSequenceRestrictions("synthetic ordering pattern (verification harness)", self.pattern)
        return self

    def __exit__(self, *a):
        from vc2_conformance.level_constraints import LEVEL_CONSTRAINTS, LEVEL_SEQUENCE_RESTRICTIONS

        LEVEL_CONSTRAINTS[:] = self.saved_rows
        LEVEL_SEQUENCE_RESTRICTIONS[1] = self.saved_seq
        return False


def _encode(cf):
    from lib.streams import make_pictures
    from vc2_conformance.encoder import make_sequence
    from vc2_conformance.bitstream import Stream, autofill_and_serialise_stream

    n = 2
    seq = make_sequence(cf, make_pictures(cf, n))
    f = io.BytesIO()
    autofill_and_serialise_stream(f, Stream(sequences=[seq]))
    return f.getvalue()


def _decode(data, record=None):
    """Real validator; optionally records every (key, value) handed to assert_level_constraint."""
    import sys
    from vc2_conformance.pseudocode.state import State
    from vc2_conformance.decoder import init_io, parse_stream
    import vc2_conformance.decoder.assertions as A

    patched = []
    if record is not None:
        orig = A.assert_level_constraint

        def wrapper(state, key, value):
            record.setdefault(key, [])
            if value not in record[key]:
                record[key].append(value)
            return orig(state, key, value)

        for name, m in list(sys.modules.items()):
            if name.startswith("vc2_conformance.decoder") and getattr(m, "assert_level_constraint", None) is orig:
                patched.append(m)
                m.assert_level_constraint = wrapper
    try:
        st = State()
        init_io(st, io.BytesIO(data))
        try:
            parse_stream(st)
        except Exception as e:
            return e
        return None
    finally:
        for m in patched:
            m.assert_level_constraint = orig


_OBS = {}


def observed(ci, pi):
    """{key: [values the validator checks]} on the encoding under the fully unconstrained table (None if that does not encode)."""
    k = (ci, pi)
    if k not in _OBS:
        from vc2_conformance.encoder.exceptions import UnsatisfiableCodecFeaturesError

        name, cf = configs()[ci]
        with installed([], PATTERNS[pi]):
            try:
                data = _encode(cf)
            except UnsatisfiableCodecFeaturesError:
                _OBS[k] = None
                return None
            rec = {}
            e = _decode(data, rec)
        _OBS[k] = rec if e is None else ("rejected", repr(e)[:200])
    return _OBS[k]


# Keys whose *coding* is the encoder's own choice and which it must therefore solve against the level (encoder/__init__.py
# "Level constraints", tests/encoder/test_level_constraints_assumptions.py SEQUENCE_HEADER_PARAMETERS, and the two
# extended-transform flags of decide_extended_transform_flag).  Every other constrained key is fixed by the CodecFeatures:
# "It is the user's responsibility to choose codec features which satisfy the restrictions of the level they choose", so
# for those keys only restrictions that admit the configuration's own values are inside the property.
CODING_CHOICE_KEYS = [
    "base_video_format", "custom_dimensions_flag", "frame_width", "frame_height", "custom_color_diff_format_flag",
    "color_diff_format_index", "custom_scan_format_flag", "source_sampling", "custom_frame_rate_flag", "frame_rate_index",
    "frame_rate_numer", "frame_rate_denom", "custom_pixel_aspect_ratio_flag", "pixel_aspect_ratio_index",
    "pixel_aspect_ratio_numer", "pixel_aspect_ratio_denom", "custom_clean_area_flag", "clean_width", "clean_height",
    "left_offset", "top_offset", "custom_signal_range_flag", "custom_signal_range_index", "luma_offset", "luma_excursion",
    "color_diff_offset", "color_diff_excursion", "custom_color_spec_flag", "color_spec_index", "custom_color_primaries_flag",
    "color_primaries_index", "custom_color_matrix_flag", "color_matrix_index", "custom_transfer_function_flag",
    "transfer_function_index", "picture_coding_mode", "asym_transform_index_flag", "asym_transform_flag",
]
ADMITTING = ("observed", "superset", "range", "both", "unused-key-zero", "unused-key-true", "unused-key-none")


def variants(key, obs, nmax, all_obs=None):
    """Restriction variants (ValueSet constructor arguments) for a key whose observed values are obs."""
    out = _variants(key, obs)
    if key not in CODING_CHOICE_KEYS:
        out = [v for v in out if v[0] in ADMITTING]
    if key == "quant_matrix_values" and all_obs is not None and True in all_obs.get("custom_quant_matrix", []):
        # checked by the validator through allowed_values_for (not assert_level_constraint), so never "observed": with a custom
        # matrix in the stream the key is in use and, being fixed by the CodecFeatures, only admitting restrictions apply
        out = [("superset", ((0, 127),))]
    return out[:nmax]


def _variants(key, obs):
    vals = [v for v in obs if isinstance(v, (int, bool))]
    out = []
    if vals:
        out.append(("observed", tuple(vals)))
    if vals and all(isinstance(v, bool) for v in vals):
        out.append(("flipped", tuple(not v for v in set(vals))))
        out.append(("both", (False, True)))
    elif vals:
        lo, hi = min(vals), max(vals)
        out.append(("above", (hi + 1,)))
        if lo > 0:
            out.append(("below", (lo - 1,)))
        out.append(("superset", tuple(vals) + (hi + 1,)))
        out.append(("range", ((lo, hi + 3),)))
        out.append(("range-missing-top", ((max(0, lo - 2), hi - 1),) if hi - 1 >= max(0, lo - 2) else (hi + 2,)))
        out.append(("zero", (0,)))
    else:
        # key never checked on this stream (e.g. custom values behind a false flag): any restriction must be harmless
        out.append(("unused-key-zero", (0,)))
        out.append(("unused-key-true", (True,)))
        out.append(("unused-key-none", ()))  # "<no values>", as the real tables write fields that must not be present
    return out


def tasks(tier, seed):
    from vc2_conformance.level_constraints import LEVEL_CONSTRAINTS

    q = tier == "quick"
    rnd = random.Random(seed)
    keys = []
    for row in LEVEL_CONSTRAINTS:
        for k in row:
            if k not in keys and k != "level":
                keys.append(k)
    ncfg = 8 if q else 10
    npat = 2 if q else 5
    out = []
    for ci in range(min(ncfg, len(configs()))):
        for pi in range(npat):
            out.append({"id": "%s/p%d/single" % (configs()[ci][0], pi), "harness": "single", "args": (ci, pi, keys, 5 if q else 7)})
    for ci in range(min(ncfg, len(configs()))):
        out.append({"id": "%s/extended-transform-pairs" % configs()[ci][0], "harness": "xt", "args": (ci, 0)})
    pairs = []
    for _ in range(150 if q else 2500):
        a, b = rnd.sample(keys, 2)
        pairs.append((rnd.randrange(min(ncfg, len(configs()))), rnd.randrange(npat), a, b, rnd.randrange(4), rnd.randrange(4)))
    B = 25
    for i in range(0, len(pairs), B):
        out.append({"id": "pairs#%d" % (i // B), "harness": "pairs", "args": (pairs[i:i + B],)})
    return out


def _case(ci, pi, restrictions):
    """Returns (outcome class, violation label or None, detail)."""
    from vc2_conformance.encoder.exceptions import UnsatisfiableCodecFeaturesError

    name, cf = configs()[ci]
    with installed(restrictions, PATTERNS[pi]):
        try:
            data = _encode(deepcopy(cf))
        except UnsatisfiableCodecFeaturesError as e:
            return "unsatisfiable:%s" % type(e).__name__, None, ""
        except Exception as e:  # not judged (see ASSUMPTIONS)
            return "encoder-raises:%s" % type(e).__name__, None, ""
        e = _decode(data)
    if e is None:
        return "accepted", None, ""
    extra = ""
    if type(e).__name__ == "ValueNotAllowedInLevel":
        extra = ":" + str(getattr(e, "key", ""))
    return "rejected", "validator-rejects-encoder-output:%s%s" % (type(e).__name__, extra), \
        "configuration %s, pattern %r, restrictions %r: %s: %s (stream %s)" % (name, PATTERNS[pi], restrictions, type(e).__name__, str(e)[:200], data.hex())


def _single_case(task, ki, vi):
    ci, pi, keys, nmax = task["args"]
    obs = observed(ci, pi)
    if not isinstance(obs, dict):
        return None
    key = keys[ki]
    vs = variants(key, obs.get(key, []), nmax, obs)
    if vi >= len(vs):
        return None
    return ci, pi, [(key, vs[vi][1])], vs[vi][0]


COUPLED = {"wavelet_index_ho": "asym_transform_index_flag", "dwt_depth_ho": "asym_transform_flag"}


def key_variants(ci, obs, key, nmax, other_keys=()):
    """variants() for a key, given which other keys the same table restricts.

    wavelet_index_ho / dwt_depth_ho are coded only when their flag is set.  When the table also restricts that flag, the value
    may become coded although the unconstrained stream does not code it, so the configuration's own value (fixed by the
    CodecFeatures) counts as its observed value: a restriction excluding it would break the documented precondition."""
    o = obs.get(key, [])
    if key in COUPLED and not o and COUPLED[key] in other_keys:
        o = [int(configs()[ci][1][key])]
    return variants(key, o, nmax, obs)


XT_FLAGS = ["asym_transform_index_flag", "asym_transform_flag"]
XT_VALUES = ["wavelet_index_ho", "dwt_depth_ho", "wavelet_index", "dwt_depth"]


def _xt_cases(ci, pi):
    """Curated pairs: each extended-transform flag under each of its variants x each transform value key under each variant."""
    obs = observed(ci, pi)
    if not isinstance(obs, dict):
        return []
    out = []
    for f in XT_FLAGS:
        for fn, fv in key_variants(ci, obs, f, 7):
            for k in XT_VALUES:
                for kn, kv in key_variants(ci, obs, k, 7, (f,)):
                    out.append((ci, pi, [(f, fv), (k, kv)], "%s+%s" % (fn, kn)))
    return out


def _pair_case(task, i):
    ci, pi, a, b, va, vb = task["args"][0][i]
    obs = observed(ci, pi)
    if not isinstance(obs, dict):
        return None
    xa = key_variants(ci, obs, a, 7, (b,))
    xb = key_variants(ci, obs, b, 7, (a,))
    if not xa or not xb:
        return None
    return ci, pi, [(a, xa[va % len(xa)][1]), (b, xb[vb % len(xb)][1])], xa[va % len(xa)][0] + "+" + xb[vb % len(xb)][0]


def build(task):
    if task["harness"] == "single":
        ci, pi, keys, nmax = task["args"]

        def h(ctx):
            ki = ctx.concretize(ctx.sym_int("key", 0, len(keys) - 1))
            vi = ctx.concretize(ctx.sym_int("variant", 0, nmax - 1))
            obs = observed(ci, pi)
            if obs is None:
                return "base-unsatisfiable"
            if not isinstance(obs, dict):
                ctx.fail("validator-rejects-encoder-output:unconstrained", list(obs))
                return "rejected"
            c = _single_case(task, ki, vi)
            if c is None:
                return "no-such-variant"
            oc, label, detail = _case(c[0], c[1], c[2])
            if label:
                ctx.fail(label, detail)
            return "%s %s" % (c[3], oc)

        return h

    if task["harness"] == "xt":
        ci, pi = task["args"]

        def hx(ctx):
            cases = _xt_cases(ci, pi)
            if not cases:
                return "base-unsatisfiable"
            c = cases[ctx.concretize(ctx.sym_int("case", 0, len(cases) - 1))]
            oc, label, detail = _case(c[0], c[1], c[2])
            if label:
                ctx.fail(label, detail)
            return "xt %s" % oc

        return hx

    (pairs,) = task["args"]

    def hp(ctx):
        i = ctx.concretize(ctx.sym_int("pair", 0, len(pairs) - 1))
        c = _pair_case(task, i)
        if c is None:
            return "no-such-variant"
        oc, label, detail = _case(c[0], c[1], c[2])
        if label:
            ctx.fail(label, detail)
        return "pair %s" % oc

    return hp


def _replay_case(task, inputs):
    if task["harness"] == "single":
        ci, pi, keys, nmax = task["args"]
        obs = observed(ci, pi)
        if obs is not None and not isinstance(obs, dict):
            return "rejected", "validator-rejects-encoder-output:unconstrained", "configuration %s pattern %r: %r" % (configs()[ci][0], PATTERNS[pi], obs)
        c = _single_case(task, inputs.get("key", 0), inputs.get("variant", 0))
    elif task["harness"] == "xt":
        cases = _xt_cases(*task["args"])
        c = cases[inputs.get("case", 0)] if cases else None
    else:
        c = _pair_case(task, inputs.get("pair", 0))
    if c is None:
        return "none", None, ""
    return _case(c[0], c[1], c[2])


def validate(task, inputs, outcome):
    return None  # selector-symbolic: the path *is* a run of the plain code (nothing symbolic reaches it)


def replay(task, label, inputs, extra):
    oc, lab, detail = _replay_case(task, inputs)
    return {"reproduced": lab is not None, "key": "C16:%s" % lab, "detail": detail}


def MIN_REACH(outcomes, per_task, tasks):
    acc = sum(n for k, n in outcomes.items() if k.endswith(" accepted") and not k.startswith("observed") and not k.startswith("pair"))
    uns = sum(n for k, n in outcomes.items() if "unsatisfiable:" in k)
    if acc < 50:
        return "fewer than 50 accepted encodings under a restriction that differs from the observed values (%d)" % acc
    if uns < 50:
        return "fewer than 50 unsatisfiable cases reached (%d)" % uns
    empty = [t["id"] for t in tasks if per_task.get(t["id"], 0) == 0]
    if empty:
        return "tasks without any explored path: %r" % empty[:5]
    return None


def canaries():
    def extended_transform_flag_ignores_level():
        import vc2_conformance.encoder.pictures as P

        orig = P.decide_extended_transform_flag

        def decide_extended_transform_flag(codec_features, flag_name, required):
            return required

        P.decide_extended_transform_flag = decide_extended_transform_flag

    def header_filter_drops_custom_flag_constraints():
        import vc2_conformance.encoder.sequence_header as H
        from vc2_conformance.constraint_table import AnyValue

        orig = H.filter_constraint_table

        def filter_constraint_table(table, values):
            out = []
            for row in orig(table, values):
                row = dict(row)
                row["custom_pixel_aspect_ratio_flag"] = AnyValue()
                out.append(row)
            return out

        H.filter_constraint_table = filter_constraint_table

    def sequence_pattern_of_level_zero_used():
        import vc2_conformance.encoder.sequence as S

        class _D(dict):
            def __getitem__(self, k):
                return dict.__getitem__(self, 0)

        S.LEVEL_SEQUENCE_RESTRICTIONS = _D(S.LEVEL_SEQUENCE_RESTRICTIONS)

    return [("extended_transform_flag_ignores_level", extended_transform_flag_ignores_level),
            ("header_filter_drops_custom_flag_constraints", header_filter_drops_custom_flag_constraints),
            ("sequence_pattern_of_level_zero_used", sequence_pattern_of_level_zero_used)]
