"""C12 -- quantisation reconstructs within one step and distinguishes indices.

Real code: pseudocode.quantization.{forward_quant,inverse_quant,quant_factor,quant_offset},
vc2_math.sign, test_cases.decoder.lossless_quantization.MINIMUM_DISTINCT_QINDEX.

Symbolic: the coefficient x (unbounded z3 Int).  The index q is symbolic in [0, Q] but reaches
``2 ** (q // 4)`` and is concretised there (one path per index and sign class).
"""
from __future__ import annotations

from symx.core import sym_abs, compare0

PROPERTY_ID = "C12"
LEVEL = "model_checking"
RULE = (
    "one task per block of quantisation indices; paths fork on q (concretised at 2**(q//4)) and on the sign "
    "tests of forward_quant/inverse_quant/sign; per path the reconstruction bound, sign preservation, zero "
    "preservation and q=0 losslessness are z3 obligations over an unbounded integer coefficient"
)
BOUNDS = {
    "quick": "coefficient: any integer; quantisation index 0..255; monotonicity up to index 300",
    "thorough": "coefficient: any integer; quantisation index 0..1023; monotonicity up to index 1100",
}
OUTSIDE = "quantisation indices above the bound (the bitstream expresses at most 255); float arithmetic (an implementation using floats makes the symbolic run inconclusive; a concrete probe of huge coefficients complements it)"
ASSUMPTIONS = [
    "abs() inside vc2_conformance modules is replaced by a symbolic-aware abs (z3 If term); everything else is the repository's code",
]
STUBS = ["abs/min/max/range shadowed in vc2_conformance module namespaces (delegate to builtins on concrete values)"]
BUDGET_S = {"quick": 300, "thorough": 1500}


def precheck():
    """Concrete boundary probe, complementing the symbolic obligations: the engine models Python's unbounded ``int`` only, so
    an implementation that detours through floats is out of its reach (the symbolic run then ends inconclusive, exit 3).
    Very large coefficients around the float precision limits are therefore also evaluated on the plain code."""
    from vc2_conformance.pseudocode import quantization as Q

    out = []
    xs = [0, 1, -1, 2, 3, 5, 1000]
    for k in (10, 24, 31, 32, 52, 53, 54, 63, 64, 100, 200, 1100):
        for d in (-1, 0, 1):
            xs += [(1 << k) + d, -((1 << k) + d), 3 * (1 << k) + d]
    for q in list(range(0, 256)):
        for x in xs:
            try:
                y = Q.inverse_quant(Q.forward_quant(x, q), q)
                bad = None
                if not 4 * abs(x - y) < Q.quant_factor(q):
                    bad = "error-below-one-step"
                elif (x >= 0 and not y >= 0) or (x <= 0 and not y <= 0):
                    bad = "sign"
                elif q == 0 and y != x:
                    bad = "index0-lossless"
            except Exception as e:  # noqa
                bad, y = "raises-%s" % type(e).__name__, None
            if bad:
                out.append({"label": "boundary-probe", "key": "C12:%s" % bad, "inputs": {"x": x, "q": q},
                            "detail": "x=%d q=%d -> y=%r (concrete probe of very large coefficients)" % (x, q, y)})
                break
        if len(out) >= 3:
            break
    return out


def tasks(tier, seed):
    Q = 255 if tier == "quick" else 1023
    M = 300 if tier == "quick" else 1100
    out = []
    step = 8
    for lo in range(0, Q + 1, step):
        out.append({"id": "recon[%d..%d]" % (lo, min(Q, lo + step - 1)), "harness": "recon", "args": (lo, min(Q, lo + step - 1))})
    for lo in range(0, M + 1, 50):
        out.append({"id": "mono[%d..%d]" % (lo, min(M, lo + 49)), "harness": "mono", "args": (lo, min(M, lo + 49))})
    return out


def build(task):
    from vc2_conformance.pseudocode import quantization as Q
    import importlib

    LQ = importlib.import_module("vc2_conformance.test_cases.decoder.lossless_quantization")

    lo, hi = task["args"]
    if task["harness"] == "recon":

        def h(ctx):
            x = ctx.sym_int("x")
            q = ctx.sym_int("q", lo, hi)
            y = Q.inverse_quant(Q.forward_quant(x, q), q)
            qf = Q.quant_factor(q)
            qc = ctx.concretize(q)
            ctx.prove(compare0(4 * sym_abs(x - y) - qf, "<"), "error-below-one-step", qc)
            # sign kept or zero: x*y >= 0 expressed without a product
            ctx.prove(_implies(x >= 0, y >= 0), "sign-nonneg", qc)
            ctx.prove(_implies(x <= 0, y <= 0), "sign-nonpos", qc)
            if qc == 0:
                ctx.prove_eq(y, x, "index0-lossless")
            return "q=%d" % qc

        return h

    def m(ctx):
        q = ctx.sym_int("q", lo, hi)
        f0 = Q.quant_factor(q)
        f1 = Q.quant_factor(q + 1)
        qc = ctx.concretize(q)
        ctx.prove(f1 > f0, "quant-factor-increases", qc)
        first = min(7, LQ.MINIMUM_DISTINCT_QINDEX)
        if qc >= first:
            ctx.prove(Q.inverse_quant(1, qc + 1) > Q.inverse_quant(1, qc), "dequantised-1-increases", qc)
        return "mono"

    return m


def _implies(a, b):
    from symx.core import SymBool

    if a is False or b is True:
        return True
    if a is True:
        return b
    if b is False:
        return a.negate()
    return a.negate() | b


def validate(task, inputs, outcome):
    # path prediction: the outcome string names the concretised q; check it equals the model's q
    if task["harness"] == "recon" and outcome != "q=%d" % inputs["q"]:
        return "path claims %s but model has q=%d" % (outcome, inputs["q"])
    return None


def replay(task, label, inputs, extra):
    from vc2_conformance.pseudocode import quantization as Q
    import importlib

    LQ = importlib.import_module("vc2_conformance.test_cases.decoder.lossless_quantization")

    q = inputs["q"]
    x = inputs.get("x", 0)
    bad = None
    if task["harness"] == "recon":
        y = Q.inverse_quant(Q.forward_quant(x, q), q)
        if not 4 * abs(x - y) < Q.quant_factor(q):
            bad = "error-below-one-step"
        elif (x >= 0 and not y >= 0) or (x <= 0 and not y <= 0):
            bad = "sign"
        elif q == 0 and y != x:
            bad = "index0-lossless"
        detail = "x=%d q=%d -> y=%d quant_factor=%d" % (x, q, y, Q.quant_factor(q))
    else:
        if not Q.quant_factor(q + 1) > Q.quant_factor(q):
            bad = "quant-factor-increases"
        elif q >= min(7, LQ.MINIMUM_DISTINCT_QINDEX) and not Q.inverse_quant(1, q + 1) > Q.inverse_quant(1, q):
            bad = "dequantised-1-increases"
        detail = "q=%d factors %d,%d inverse_quant(1,.) %d,%d MINIMUM_DISTINCT_QINDEX=%d" % (
            q, Q.quant_factor(q), Q.quant_factor(q + 1), Q.inverse_quant(1, q), Q.inverse_quant(1, q + 1), LQ.MINIMUM_DISTINCT_QINDEX)
    return {"reproduced": bad is not None, "key": "C12:%s" % bad, "detail": detail}


def canaries():
    def offset_off_by_one():
        from vc2_conformance.pseudocode import quantization as Q

        orig = Q.quant_offset

        def quant_offset(index):
            return orig(index) + (Q.quant_factor(index) if index == 37 else 0)

        Q.quant_offset = quant_offset

    def forward_rounds_up():
        from vc2_conformance.pseudocode import quantization as Q

        def forward_quant(coeff, quant_index):
            m = abs(coeff)
            r = (4 * m + (Q.quant_factor(quant_index) - 1 if quant_index == 200 else 0)) // Q.quant_factor(quant_index)
            return r if coeff >= 0 else -r

        Q.forward_quant = forward_quant

    def min_distinct_too_low():
        import importlib

        LQ = importlib.import_module("vc2_conformance.test_cases.decoder.lossless_quantization")
        LQ.MINIMUM_DISTINCT_QINDEX = 5

    return [("offset_off_by_one", offset_off_by_one), ("forward_rounds_up", forward_rounds_up), ("min_distinct_too_low", min_distinct_too_low)]
