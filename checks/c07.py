"""C07 -- automatic field filling preserves explicit values and computes derived ones.

Real code: bitstream/vc2_autofill.py (autofill_picture_number, autofill_major_version, autofill_parse_offsets(+finalize),
autofill_and_serialise_stream), version_constraints.py, the Serialiser/BitstreamWriter underneath, and (cross-check)
the real Deserialiser and decoder on the produced bytes.

Symbolic: explicit picture numbers (32 bit), explicit next/previous parse offsets (32 bit), explicit major_version,
preset indices of the sequence header (frame rate, signal range, colour spec/primaries/matrix/transfer function),
wavelet_index_ho / dwt_depth_ho.  Enumerated: the data-unit list shape and which auto-capable fields are explicit.
"""
from __future__ import annotations

import io
import random
from copy import deepcopy

from symx.core import cv_of, is_sym, sym_max
from symx.symfile import SymFile

PROPERTY_ID = "C07"
LEVEL = "model_checking"
RULE = (
    "case = (stream shape, mask of explicit vs AUTO fields); explicit values are symbolic; the real autofill_and_serialise_stream "
    "writes to a symbolic file, the real Deserialiser reads it back; z3 proves: explicit values unchanged, AUTO picture numbers follow "
    "the reference recurrence (mod 2^32, restart per sequence, repeated across fragments), offsets equal true distances (0 on the last "
    "unit of a sequence), AUTO major_version equals an independent reference of (11.2.2) and the real decoder raises no version error"
)
BOUNDS = {
    "quick": "shapes: pictures x3, fragments (2 pictures), two sequences, padding/auxiliary payloads 0..3 bytes; all explicit/AUTO masks for picture numbers (<=3 pictures) and 24 seeded masks for offsets; preset indices 0..31 symbolic one group at a time, plus all three custom colour components together (0..7 each) and frame-rate x signal-range",
    "thorough": "as quick plus 4 pictures, all offset masks for <=4 units, indices 0..63, pairs of index groups",
}
OUTSIDE = "longer unit lists; picture payloads are the encoder's (concrete 2x2 pictures)"
ASSUMPTIONS = ["descriptions are built by the real encoder for a 2x2 format and then edited; SymFile stands for the output file"]
STUBS = ["SymFile", "bytearray/bitarray stand-ins in vc2_conformance.bitstream.io"]
BUDGET_S = {"quick": 600, "thorough": 3000}
ENGINE_OPTS = {"max_decisions": 20000}
IFCONV = ["write_bit"]
REPLAYS_PER_LABEL = 2
M32 = 1 << 32


def _cf(frag=0, ld=False):
    from lib.streams import minimal_codec_features
    from vc2_data_tables import Profiles

    kw = dict(video_parameters=dict(frame_width=2, frame_height=2, clean_width=2, clean_height=2), slices_x=2, slices_y=1, picture_bytes=12,
              fragment_slice_count=frag)
    if ld:
        kw["profile"] = Profiles.low_delay
    return minimal_codec_features(**kw)


def _sequence(npics, frag=0, ld=False, pattern=None):
    from vc2_conformance.encoder import make_sequence
    from lib.streams import make_pictures

    cf = _cf(frag, ld)
    pats = (pattern,) if pattern else ()
    return make_sequence(cf, make_pictures(cf, npics), *pats)


SHAPES = {
    "pics3": lambda: [_sequence(3)],
    "pics4": lambda: [_sequence(4)],
    "frags2": lambda: [_sequence(2, frag=1)],
    "twoseq": lambda: [_sequence(2), _sequence(1, frag=2)],
    "padaux": lambda: [_sequence(1, pattern="sequence_header padding_data auxiliary_data high_quality_picture padding_data end_of_sequence")],
    "ld2": lambda: [_sequence(2, ld=True)],
}


def tasks(tier, seed):
    rnd = random.Random(seed)
    q = tier == "quick"
    out = []
    # picture-number masks
    for shape, npic in (("pics3", 3), ("frags2", 6), ("twoseq", 5), ("ld2", 2)) + ((("pics4", 4),) if not q else ()):
        masks = list(range(1 << min(npic, 4)))
        for m in masks:
            out.append({"id": "picnum %s mask=%d" % (shape, m), "harness": "fields", "args": (shape, "pic", m, 0)})
    # offset masks
    for shape in ("pics3", "padaux", "twoseq"):
        ms = [rnd.randrange(1, 1 << 10) for _ in range(8 if q else 40)] + [0]
        for m in ms:
            out.append({"id": "offsets %s mask=%d" % (shape, m), "harness": "fields", "args": (shape, "off", m, rnd.randrange(4))})
    # version-driving fields
    groups = ["frame_rate", "signal_range", "color_spec", "color_primaries", "color_matrix", "transfer_function", "color_all", "rates_and_range", "wavelet_ho", "depth_ho", "profile_frag"]
    for g in groups:
        for explicit_version in (None, "sym"):
            out.append({"id": "version %s explicit=%s" % (g, explicit_version), "harness": "version", "args": (g, explicit_version, 31 if q else 63)})
    return out


# ---------------------------------------------------------------------------- shared pieces
def _units(stream):
    for si, seq in enumerate(stream["sequences"]):
        for ui, du in enumerate(seq["data_units"]):
            yield si, ui, du


def _is_pic(du):
    return "picture_parse" in du or du["parse_info"]["parse_code"] in (0xE8, 0xC8)


def _is_frag(du):
    return du["parse_info"]["parse_code"] in (0xEC, 0xCC)


def _header_of(du):
    if _is_frag(du):
        return du.setdefault("fragment_parse", {}).setdefault("fragment_header", {})
    return du.setdefault("picture_parse", {}).setdefault("picture_header", {})


def _serialise(stream, f):
    from vc2_conformance.bitstream import autofill_and_serialise_stream

    autofill_and_serialise_stream(f, stream)


def _deserialise(f):
    from vc2_conformance import bitstream as B
    from vc2_conformance.pseudocode.state import State

    r = B.BitstreamReader(f)
    with B.Deserialiser(r) as des:
        B.parse_stream(des, State())
    return des.context


def _check_common(stream_in, explicit, out_desc, prove, prove_eq):
    """explicit: {(si, ui, field): value}.  Offsets / picture numbers of the deserialised output."""
    seqs = out_desc["sequences"]
    prove(len(seqs) == len(stream_in["sequences"]), "sequence-count")
    for si, seq in enumerate(seqs):
        dus = seq["data_units"]
        prove(len(dus) == len(stream_in["sequences"][si]["data_units"]), "unit-count")
        last = None
        for ui, du in enumerate(dus):
            pi = du["parse_info"]
            off = pi["_offset"]
            nxt = dus[ui + 1]["parse_info"]["_offset"] - off if ui + 1 < len(dus) else 0
            prv = off - dus[ui - 1]["parse_info"]["_offset"] if ui > 0 else 0
            for fld, true in (("next_parse_offset", nxt), ("previous_parse_offset", prv)):
                key = (si, ui, fld)
                if key in explicit:
                    prove_eq(pi[fld], explicit[key], "explicit-%s-kept" % fld)
                else:
                    prove_eq(pi[fld], true, "auto-%s-true-distance" % fld)
            prove_eq(pi["parse_info_prefix"], 0x42424344, "default-prefix")
            src = stream_in["sequences"][si]["data_units"][ui]
            if _is_pic(src) or _is_frag(src):
                hdr = (du["fragment_parse"]["fragment_header"] if _is_frag(src) else du["picture_parse"]["picture_header"])
                starts = (not _is_frag(src)) or hdr["fragment_slice_count"] == 0
                key = (si, ui, "picture_number")
                if key in explicit:
                    exp = explicit[key]
                    prove_eq(hdr["picture_number"], exp, "explicit-picture-number-kept")
                else:
                    if last is None:
                        exp = 0
                    elif starts:
                        exp = (last + 1) % M32
                    else:
                        exp = last
                    prove_eq(hdr["picture_number"], exp, "auto-picture-number")
                last = hdr["picture_number"]


def build(task):
    hname = task["harness"]
    if hname == "fields":
        shape, kind, mask, salt = task["args"]

        def h(ctx):
            stream, explicit = _make_fields_case(shape, kind, mask, salt, lambda name, nbits, default: ctx.sym_bits(name, nbits, default))
            src = deepcopy_desc(stream)
            f = SymFile()
            try:
                _serialise(stream, f)
            except Exception as e:
                ctx.fail("serialise-raises", [type(e).__name__, str(e)[:100]])
                return "exc"
            f.seek(0)
            out = _deserialise(SymFile(f.getcells()))
            _check_common(src, explicit, out, lambda c, l, e=None: ctx.prove(c, l, e), lambda a, b, l: ctx.prove_eq(a, b, l))
            return "ok"

        return h

    group, explicit_version, imax = task["args"]

    def hv(ctx):
        stream, info = _make_version_case(group, explicit_version, imax, lambda name, lo, hi, default: ctx.sym_int(name, lo, hi, default=default))
        f = SymFile()
        try:
            _serialise(stream, f)
        except Exception as e:
            # an explicit version below what the features need may make the description unserialisable (e.g. fields unused)
            if explicit_version is not None:
                return "unserialisable-with-explicit-version"
            ctx.fail("serialise-raises", [type(e).__name__, str(e)[:100]])
            return "exc"
        cells = f.getcells()
        out = _deserialise(SymFile(cells))
        got = out["sequences"][0]["data_units"][0]["sequence_header"]["parse_parameters"]["major_version"]
        if explicit_version is not None:
            ctx.prove_eq(got, info["explicit"], "explicit-major-version-kept")
            return "explicit"
        ref = _reference_version(info)
        ctx.prove_eq(got, ref, "auto-major-version-is-minimum-required")
        # cross-check with the validator: no version complaint
        from lib import dec

        cls, st, exc = dec.run_decoder(SymFile(cells))
        verr = cls[0] == "CE" and ("Version" in cls[1])
        ctx.prove(not verr, "validator-accepts-version", list(cls))
        if cls[0] == "EXC":
            ctx.fail("decoder-unexpected-exception", list(cls))
        return "auto %s" % (cls[0] if cls[0] != "CE" else cls[1])

    return hv


def deepcopy_desc(stream):
    """Structure copy (parse codes etc.) that keeps symbolic values by reference."""
    def cp(x):
        if isinstance(x, dict):
            return {k: cp(v) for k, v in x.items()}
        if isinstance(x, list):
            return [cp(v) for v in x]
        return x

    return cp(stream)


def _make_fields_case(shape, kind, mask, salt, sym):
    from vc2_conformance.bitstream import Stream

    stream = Stream(sequences=SHAPES[shape]())
    explicit = {}
    if kind == "pic":
        k = 0
        rnd = random.Random(mask * 7 + 1)
        for si, ui, du in _units(stream):
            if _is_pic(du) or _is_frag(du):
                if (mask >> (k % 4)) & 1 and (k < 4 or (mask >> 3) & 1):
                    v = sym("pic%d_%d" % (si, ui), 32, rnd.choice([0, 1, 7, M32 - 1, M32 - 2, 1000]))
                    _header_of(du)["picture_number"] = v
                    explicit[(si, ui, "picture_number")] = v
                k += 1
    else:
        k = 0
        for si, ui, du in _units(stream):
            code = du["parse_info"]["parse_code"]
            for fld in ("next_parse_offset", "previous_parse_offset"):
                if (mask >> (k % 10)) & 1:
                    if fld == "next_parse_offset" and code in (0x20, 0x30):
                        k += 1
                        continue  # the length of padding/auxiliary units: the serialiser requires consistency with the payload
                    v = sym("off%d_%d_%s" % (si, ui, fld[0]), 32, 13 + k)
                    du["parse_info"][fld] = v
                    explicit[(si, ui, fld)] = v
                k += 1
            # payload lengths 0..3 for padding / auxiliary data
            if code == 0x30:
                du.setdefault("padding", {})["bytes"] = bytes(range((salt + ui) % 4))
            if code == 0x20:
                du.setdefault("auxiliary_data", {})["bytes"] = bytes(range((salt + ui + 1) % 4))
    return stream, explicit


def _make_version_case(group, explicit_version, imax, sym):
    from vc2_conformance.bitstream import Stream

    frag = 1 if group == "profile_frag" else 0
    stream = Stream(sequences=[_sequence(1, frag=frag)])
    sh = stream["sequences"][0]["data_units"][0]["sequence_header"]
    vp = sh["video_parameters"]
    info = {"hq": True, "fragments": bool(frag), "explicit": None}
    if group == "frame_rate":
        i = sym("index", 0, imax, 3)
        vp["frame_rate"] = {"custom_frame_rate_flag": True, "index": i}
        if _is_zero(i):
            vp["frame_rate"].update(frame_rate_numer=1, frame_rate_denom=1)
        info["frame_rate_index"] = i
    elif group == "signal_range":
        i = sym("index", 0, imax, 2)
        vp["signal_range"] = {"custom_signal_range_flag": True, "index": i}
        if _is_zero(i):
            vp["signal_range"].update(luma_offset=0, luma_excursion=255, color_diff_offset=128, color_diff_excursion=255)
        info["signal_range_index"] = i
    elif group in ("color_spec", "color_primaries", "color_matrix", "transfer_function"):
        sub = {"color_primaries": {"custom_color_primaries_flag": False}, "color_matrix": {"custom_color_matrix_flag": False},
               "transfer_function": {"custom_transfer_function_flag": False}}
        cs = {"custom_color_spec_flag": True, "index": 0}
        i = sym("index", 0, imax, 1)
        if group == "color_spec":
            cs["index"] = i
            info["color_spec_index"] = i
            if _is_zero(i):
                cs.update(sub)
        else:
            cs.update(sub)
            cs[group] = {"custom_%s_flag" % group: True, "index": i}
            info[group + "_index"] = i
        vp["color_spec"] = cs
    elif group == "color_all":
        # custom colour specification with all three components custom at once (interaction between the components)
        cs = {"custom_color_spec_flag": True, "index": 0}
        for g, d in (("color_primaries", 1), ("color_matrix", 2), ("transfer_function", 1)):
            # each component is custom or left at the custom spec's default (flag False), chosen per path
            if bool(sym("flag_" + g, 0, 1, 1) == 1):
                i = sym("index_" + g, 0, 7, d)
                cs[g] = {"custom_%s_flag" % g: True, "index": i}
                info[g + "_index"] = i
            else:
                cs[g] = {"custom_%s_flag" % g: False}
        vp["color_spec"] = cs
    elif group == "rates_and_range":
        i = sym("index_fr", 1, min(imax, 15), 3)
        j = sym("index_sr", 1, 8, 2)
        vp["frame_rate"] = {"custom_frame_rate_flag": True, "index": i}
        vp["signal_range"] = {"custom_signal_range_flag": True, "index": j}
        info["frame_rate_index"] = i
        info["signal_range_index"] = j
    elif group in ("wavelet_ho", "depth_ho"):
        tp = stream["sequences"][0]["data_units"][1]["picture_parse"]["wavelet_transform"]["transform_parameters"]
        if group == "wavelet_ho":
            i = sym("index", 0, 6, 4)
            tp["extended_transform_parameters"] = {"asym_transform_index_flag": True, "wavelet_index_ho": i, "asym_transform_flag": False}
            info["wavelet_index"] = tp["wavelet_index"]
            info["wavelet_index_ho"] = i
        else:
            i = sym("index", 0, 2, 0)
            tp["extended_transform_parameters"] = {"asym_transform_index_flag": False, "asym_transform_flag": True, "dwt_depth_ho": i}
            info["dwt_depth_ho"] = i
    if explicit_version is not None:
        v = sym("major_version", 1, 4, 2)
        sh["parse_parameters"]["major_version"] = v
        info["explicit"] = v
    return stream, info


def _is_zero(i):
    return bool(i == 0)  # forks when symbolic: the description's shape depends on it


def _reference_version(info):
    """(11.2.2) the smallest major_version supporting the features used -- written from the standard's rules."""
    need = 1
    if info.get("hq"):
        need = 2
    three = False
    if info.get("fragments"):
        three = True

    def gt(x, n):
        return x > n

    conds = []
    if "frame_rate_index" in info:
        conds.append(gt(info["frame_rate_index"], 11))
    if "signal_range_index" in info:
        conds.append(gt(info["signal_range_index"], 4))
    if "color_spec_index" in info:
        conds.append(gt(info["color_spec_index"], 4))
    for k in ("color_primaries_index", "color_matrix_index", "transfer_function_index"):
        if k in info:
            conds.append(gt(info[k], 3))
    if "wavelet_index_ho" in info:
        conds.append(info["wavelet_index_ho"] != info["wavelet_index"])
    if "dwt_depth_ho" in info:
        conds.append(info["dwt_depth_ho"] != 0)
    res = 3 if three else need
    for c in conds:
        if is_sym(c):
            c = bool(c)  # fork: the reference is evaluated per path
        if c:
            res = 3
    return res


# ---------------------------------------------------------------------------- plain replay
def _concrete_sym_bits(inputs):
    def sym(name, nbits, default):
        v = 0
        for j in range(nbits):
            b = inputs.get("%s.%d" % (name, j))
            v = (v << 1) | ((default >> (nbits - 1 - j)) & 1 if b is None else b)
        return v

    return sym


def validate(task, inputs, outcome):
    return None


def replay(task, label, inputs, extra):
    bad = []

    def prove(c, l, e=None):
        if not c:
            bad.append((l, e))

    if task["harness"] == "fields":
        shape, kind, mask, salt = task["args"]
        stream, explicit = _make_fields_case(shape, kind, mask, salt, _concrete_sym_bits(inputs))
        src = deepcopy_desc(stream)
        f = io.BytesIO()
        try:
            _serialise(stream, f)
        except Exception as e:
            return {"reproduced": True, "key": "C07:serialise-raises:%s" % type(e).__name__, "detail": "%r; explicit %r" % (e, explicit)}
        out = _deserialise(io.BytesIO(f.getvalue()))
        _check_common(src, explicit, out, prove, lambda a, b, l: prove(a == b, l, [a, b]))
        return {"reproduced": bool(bad), "key": "C07:%s" % (bad[0][0] if bad else None),
                "detail": "shape %s %s mask %d explicit %r: %r; bytes %s" % (shape, kind, mask, explicit, bad[:2], f.getvalue().hex())}
    group, explicit_version, imax = task["args"]
    stream, info = _make_version_case(group, explicit_version, imax, lambda name, lo, hi, default: max(lo, min(hi, inputs.get(name, default))))
    f = io.BytesIO()
    try:
        _serialise(stream, f)
    except Exception as e:
        if explicit_version is not None:
            return {"reproduced": False, "key": None, "detail": "unserialisable with explicit version"}
        return {"reproduced": True, "key": "C07:serialise-raises:%s" % type(e).__name__, "detail": "%r info %r" % (e, info)}
    out = _deserialise(io.BytesIO(f.getvalue()))
    got = out["sequences"][0]["data_units"][0]["sequence_header"]["parse_parameters"]["major_version"]
    if explicit_version is not None:
        prove(got == info["explicit"], "explicit-major-version-kept", [got, info["explicit"]])
    else:
        ref = _reference_version(info)
        prove(got == ref, "auto-major-version-is-minimum-required", [got, ref])
        from lib import dec

        cls, st, exc = dec.run_decoder(io.BytesIO(f.getvalue()))
        prove(not (cls[0] == "CE" and "Version" in cls[1]), "validator-accepts-version", list(cls))
        prove(cls[0] != "EXC", "decoder-unexpected-exception", list(cls))
    return {"reproduced": bool(bad), "key": "C07:%s" % (bad[0][0] if bad else None),
            "detail": "group %s info %r: %r; bytes %s" % (group, {k: v for k, v in info.items()}, bad[:2], f.getvalue().hex())}


def canaries():
    def picture_number_wrap_dropped():
        import vc2_conformance.bitstream.vc2_autofill as A
        import inspect, textwrap

        src = inspect.getsource(A.autofill_picture_number)
        src = src.replace('header["picture_number"] = (last_picture_number + 1) & 0xFFFFFFFF', 'header["picture_number"] = (last_picture_number + 1) & 0x1FFFFFFFF')
        assert "0x1FFFFFFFF" in src
        ns = {}
        exec(compile(textwrap.dedent(src), "<canary>", "exec"), A.__dict__, ns)
        A.autofill_picture_number = ns["autofill_picture_number"]

    def previous_offset_uses_wrong_neighbour_after_explicit():
        import vc2_conformance.bitstream.vc2_autofill as A

        orig = A.autofill_parse_offsets_finalize

        def fin(w, stream, nxt, prv):
            prv2 = [(s, u) for (s, u) in prv if not (u >= 2 and (s, u - 1) not in prv)]
            return orig(w, stream, nxt, prv2)

        A.autofill_parse_offsets_finalize = fin

    def colour_matrix_threshold():
        import vc2_conformance.version_constraints as V
        import vc2_conformance.bitstream.vc2_autofill as A

        def f(index):
            return 3 if index > 4 else V.MINIMUM_MAJOR_VERSION

        A.preset_color_matrix_version_implication = f

    return [("picture_number_wrap_dropped", picture_number_wrap_dropped),
            ("previous_offset_uses_wrong_neighbour_after_explicit", previous_offset_uses_wrong_neighbour_after_explicit),
            ("colour_matrix_threshold", colour_matrix_threshold)]
