"""C19 -- sequence completion is sound, complete and shortest.

Real code: symbol_re.make_matching_sequence (and Matcher underneath).
Oracle: breadth-first search over derivative tuples (lib.regex_ref.shortest_completion).
Selector-symbolic: required-symbol lists, pattern pairs and depth limits are chosen by solver-enumerated selectors.
"""
from __future__ import annotations

import itertools
import random

from lib import regex_ref as R

PROPERTY_ID = "C19"
LEVEL = "exploration"
RULE = (
    "case = (required list over {a,b,c}, one or two patterns from the syntax-tree catalogue, depth_limit, symbol priority); the real "
    "make_matching_sequence result must contain the required symbols in order with only insertions, match every pattern, have the "
    "length of the reference shortest completion, and ImpossibleSequenceError is raised iff the reference finds none; plus the "
    "repository's level patterns x generic pattern x test-case patterns with picture lists; non-trivial = at least one insertion needed"
)
BOUNDS = {
    "quick": "required lists up to length 2 over {a,b,c}; single patterns: all 207 trees up to 4 nodes; pattern pairs: 400 seeded pairs of trees up to 3 nodes; 300 seeded two-branch alternations of symbol chains; 300 seeded ordered pairs of such alternations / short chains; depth_limit 1..3; real combinations with up to 3 pictures",
    "thorough": "required lists up to length 3; all 207 trees up to 4 nodes singly; 2000 seeded pairs of trees up to 4 nodes; 2000 two-branch alternations; real combinations with up to 4 pictures",
}
OUTSIDE = "longer lists, larger pattern sets, depth limits above 3"
ASSUMPTIONS = ["reference: lib/regex_ref.py; 'at most depth_limit consecutive insertions' is the permitted-insertions rule"]
STUBS = []
BUDGET_S = {"quick": 500, "thorough": 2400}
IFCONV = False
REPLAYS_PER_LABEL = 3  # the label already carries the finding key (":greedy" or not), so sampling per label loses nothing
REPLAY_CAP = 20000

ALPHA = ["a", "b", "c"]
PICS = ["high_quality_picture", "low_delay_picture", "high_quality_picture_fragment", "low_delay_picture_fragment"]
UNITS = ["sequence_header", "end_of_sequence", "auxiliary_data", "padding_data"] + PICS
TESTCASE_PATTERNS = [
    "sequence_header .* end_of_sequence",
    "(. padding_data)+ end_of_sequence",
    ".* auxiliary_data .*",
    "sequence_header (. sequence_header)* end_of_sequence",
    "(sequence_header .)* end_of_sequence",
]


def _size(t):
    return 1 if t[0] in ("sym", "any") else 1 + sum(_size(x) for x in t[1:] if isinstance(x, tuple))


def _lists(maxlen):
    out = [[]]
    for n in range(1, maxlen + 1):
        out += [list(t) for t in itertools.product(ALPHA, repeat=n)]
    return out


def tasks(tier, seed):
    rnd = random.Random(seed)
    quick = tier == "quick"
    singles = R.enumerate_asts(4)
    small = R.enumerate_asts(3 if quick else 4)
    pairs = []
    want = 400 if quick else 2000
    while len(pairs) < want:
        pairs.append((rnd.choice(small), rnd.choice(small)))
    # two-branch patterns (alternation of symbol chains): the smallest shape where consuming a required symbol
    # immediately is not optimal
    def chain(syms):
        t = syms[0]
        for x in syms[1:]:
            t = ("cat", t, x)
        return t

    leaves = [("sym", "a"), ("sym", "b"), ("sym", "c"), ("any",)]
    chains = [chain(list(c)) for n in (1, 2, 3, 4, 5) for c in (itertools.product(leaves, repeat=n) if n <= 3 else [])]
    chains += [chain([("sym", "a")] + [("sym", "b")] * k) for k in (3, 4, 5)]
    two = [("alt", chain([("sym", "a"), ("sym", "b"), ("sym", "b")]), chain([("sym", "c"), ("sym", "a")])),
           ("alt", chain([("sym", "a")] + [("sym", "b")] * 4), chain([("sym", "c"), ("sym", "a")]))]
    for _ in range(300 if quick else 2000):
        two.append(("alt", rnd.choice(chains), rnd.choice(chains)))
    # pairs whose members are alternations of short chains / short chains (order of the patterns matters too)
    short = [c for c in chains if _size(c) <= 3]
    mixed = []
    for _ in range(300 if quick else 2000):
        a = ("alt", rnd.choice(short), rnd.choice(short))
        b = rnd.choice(short + [("alt", rnd.choice(short), rnd.choice(short))])
        mixed.append((a, b) if rnd.random() < 0.5 else (b, a))
    sets = [(t,) for t in singles] + pairs + [(t,) for t in two] + mixed
    lists = _lists(2 if quick else 3)
    out = []
    B = 10
    for i in range(0, len(sets), B):
        out.append({"id": "sets#%d" % (i // B), "harness": "cat", "args": (sets[i:i + B], lists)})
    out.append({"id": "real", "harness": "real", "args": (3 if quick else 4,)})
    return out


def _run_real(required, texts, depth_limit, priority):
    from vc2_conformance.symbol_re import make_matching_sequence, ImpossibleSequenceError, WILDCARD

    try:
        return list(make_matching_sequence(list(required), *texts, depth_limit=depth_limit, symbol_priority=list(priority))), WILDCARD
    except ImpossibleSequenceError:
        return None, WILDCARD


def _judge(required, texts, cores, depth_limit, priority, alphabet):
    """Returns (label or None, detail)."""
    res, W = _run_real(required, texts, depth_limit, priority)
    # with a priority list, wildcards are substituted by priority symbols only: the reference alphabet follows
    ref_alpha = list(alphabet) + ["\x00fresh"]
    best = R.shortest_completion(required, cores, depth_limit, ref_alpha)
    if res is None:
        if best is not None:
            g = R.greedy_completion_length(required, cores, depth_limit, ref_alpha)
            return ("spurious-impossible" + (":greedy" if g is None else ""),
                    "required %r patterns %r depth_limit %d: ImpossibleSequenceError but a completion of length %d exists" % (required, texts, depth_limit, best))
        return None, None
    sub, ok = R.check_completion(required, res, cores, wildcard=W)
    if not sub:
        return "not-a-supersequence", "required %r patterns %r -> %r" % (required, texts, res)
    if not ok:
        return "result-does-not-match", "required %r patterns %r -> %r" % (required, texts, res)
    if best is None:
        return "reference-finds-none", "required %r patterns %r -> %r but the reference finds no completion" % (required, texts, res)
    if len(res) != best:
        g = R.greedy_completion_length(required, cores, depth_limit, ref_alpha)
        return ("not-shortest" + (":greedy" if g == len(res) else ""),
                "required %r patterns %r depth_limit %d -> %r (length %d) but length %d is possible" % (required, texts, depth_limit, res, len(res), best))
    return None, None


def _real_cases(maxpics):
    from vc2_conformance.level_constraints import LEVEL_SEQUENCE_RESTRICTIONS

    levels = []
    for lv, r in sorted(LEVEL_SEQUENCE_RESTRICTIONS.items()):
        if r.sequence_restriction_regex not in levels:
            levels.append(r.sequence_restriction_regex)
    cases = []
    for lvp in levels:
        for tp in [None] + TESTCASE_PATTERNS:
            for pic in PICS:
                for n in range(0, maxpics + 1):
                    pats = ["sequence_header .* end_of_sequence", lvp] + ([tp] if tp else [])
                    cases.append(([pic] * n, pats))
    return cases


def build(task):
    if task["harness"] == "cat":
        sets, lists = task["args"]

        def h(ctx):
            si = ctx.concretize(ctx.sym_int("set", 0, len(sets) - 1))
            li = ctx.concretize(ctx.sym_int("list", 0, len(lists) - 1))
            dl = ctx.concretize(ctx.sym_int("depth_limit", 1, 3))
            pr = ctx.concretize(ctx.sym_int("priority", 0, 1))
            trees = sets[si]
            texts = [R.render(t) for t in trees]
            cores = [R.lower(t) for t in trees]
            label, detail = _judge(lists[li], texts, cores, dl, ALPHA if pr else [], ALPHA)
            if label:
                ctx.fail(label, detail)
            return "ok" if not label else label

        return h

    (maxpics,) = task["args"]
    cases = _real_cases(maxpics)

    def hr(ctx):
        ci = ctx.concretize(ctx.sym_int("case", 0, len(cases) - 1))
        required, pats = cases[ci]
        cores = [R.parse(p) for p in pats]
        label, detail = _judge(required, pats, cores, 3, ["padding_data", "sequence_header"], UNITS)
        if label:
            ctx.fail(label, detail)
        return "ok" if not label else label

    return hr


def validate(task, inputs, outcome):
    return None


def replay(task, label, inputs, extra):
    if task["harness"] == "cat":
        sets, lists = task["args"]
        trees = sets[inputs.get("set", 0)]
        texts = [R.render(t) for t in trees]
        cores = [R.lower(t) for t in trees]
        lab, detail = _judge(lists[inputs.get("list", 0)], texts, cores, inputs.get("depth_limit", 1), ALPHA if inputs.get("priority", 0) else [], ALPHA)
    else:
        cases = _real_cases(task["args"][0])
        required, pats = cases[inputs.get("case", 0)]
        lab, detail = _judge(required, pats, [R.parse(p) for p in pats], 3, ["padding_data", "sequence_header"], UNITS)
    return {"reproduced": lab is not None, "key": "C19:%s" % lab, "detail": detail or ""}


def canaries():
    def returns_without_checking_completion():
        import vc2_conformance.symbol_re as S

        orig = S.Matcher.is_complete

        def is_complete(self):
            return True if len(self.cur_states) == 2 else orig(self)

        S.Matcher.is_complete = is_complete

    def depth_limit_not_reset():
        import vc2_conformance.symbol_re as S
        import inspect, textwrap

        src = inspect.getsource(S.make_matching_sequence)
        src = src.replace("depth_limit,  # NB: Reset depth limit when a match is found", "this_depth_limit,")
        assert "this_depth_limit,\n" in src
        ns = {}
        exec(compile(textwrap.dedent(src), "<canary>", "exec"), S.__dict__, ns)
        S.make_matching_sequence = ns["make_matching_sequence"]

    def drops_required_symbol_on_wildcard():
        import vc2_conformance.symbol_re as S

        orig = S.make_matching_sequence

        def make_matching_sequence(initial_sequence, *patterns, **kw):
            r = orig(initial_sequence, *patterns, **kw)
            if len(r) >= 3 and len(initial_sequence) == 2 and r[0] == r[1]:
                return r[1:]
            return r

        S.make_matching_sequence = make_matching_sequence

    return [("returns_without_checking_completion", returns_without_checking_completion), ("depth_limit_not_reset", depth_limit_not_reset),
            ("drops_required_symbol_on_wildcard", drops_required_symbol_on_wildcard)]
