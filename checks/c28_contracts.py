"""PEP-316 contracts over the real CSV cell parsers of vc2_conformance.codec_features, for CrossHair.

Each function below calls the repository's parser on a *symbolic string* drawn from a small alphabet and states what may
come back: a value in the documented domain, or ValueError -- nothing else.  Run by checks/c28.py as
    crosshair check --report_all --per_condition_timeout T checks/c28_contracts.py:<line>
"""
from vc2_conformance.codec_features import parse_int_at_least, parse_bool, parse_int_enum, parse_quantization_matrix
from vc2_data_tables import Profiles, WaveletFilters


def _alpha(s: str, alphabet: str, n: int) -> bool:
    return len(s) <= n and all(c in alphabet for c in s)


def contract_parse_int_at_least(minimum: int, value: str) -> int:
    """
    pre: _alpha(value, "019-+ _", 3) and -2 <= minimum <= 11
    post: __return__ >= minimum and isinstance(__return__, int)
    raises: ValueError
    """
    return parse_int_at_least(minimum, value)


def contract_parse_bool(value: str) -> bool:
    """
    pre: _alpha(value, "01tTfFyYnNoOeEsS", 3)
    post: __return__ is True or __return__ is False
    raises: ValueError
    """
    return parse_bool(value)


def contract_parse_int_enum_profile(value: str) -> int:
    """
    pre: _alpha(value, "0123-+ ", 3)
    post: __return__ in (Profiles.low_delay, Profiles.high_quality)
    raises: ValueError
    """
    return parse_int_enum(Profiles, value)


def contract_parse_int_enum_wavelet(value: str) -> int:
    """
    pre: _alpha(value, "0167-+ ", 2)
    post: 0 <= int(__return__) <= 6
    raises: ValueError
    """
    return parse_int_enum(WaveletFilters, value)


def contract_parse_quantization_matrix(dwt_depth: int, dwt_depth_ho: int, value: str) -> bool:
    """
    pre: _alpha(value, "01 -", 5) and 0 <= dwt_depth <= 1 and 0 <= dwt_depth_ho <= 1
    post: __return__
    raises: ValueError
    """
    m = parse_quantization_matrix(dwt_depth, dwt_depth_ho, value)
    levels = sorted(m)
    if levels != list(range(dwt_depth + dwt_depth_ho + 1)):
        return False
    if dwt_depth_ho == 0:
        if sorted(m[0]) != ["LL"]:
            return False
    else:
        if sorted(m[0]) != ["L"]:
            return False
        for lv in range(1, dwt_depth_ho + 1):
            if sorted(m[lv]) != ["H"]:
                return False
    for lv in range(dwt_depth_ho + 1, dwt_depth + dwt_depth_ho + 1):
        if sorted(m[lv]) != ["HH", "HL", "LH"]:
            return False
    return all(isinstance(v, int) for b in m.values() for v in b.values())
