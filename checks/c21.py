"""C21 -- the serialiser/deserialiser framework round-trips arbitrary description programs.

Real code: bitstream/serdes.py (SerDes, Serialiser, Deserialiser: targets, lists, subcontexts, context types, bounded
blocks, byte alignment, computed values, completeness verification) over the real BitstreamWriter/BitstreamReader.

Selector-symbolic in the *programs* (a seeded catalogue of generated programs + curated combinations, chosen by a
solver-enumerated selector) and fully symbolic in the *values*: every leaf of the description is made of symbolic bits, so
each program is checked for all values at once (paths fork only on exp-Golomb length classes).
Obligations per program: (1) serialise(description) then deserialise with the same program gives an equal description
(z3 equality per leaf) and both runs verify complete; (2) an extra unused value anywhere (dict entry or list element) makes
serialisation fail with UnusedTargetError; (3) a missing needed value makes serialisation fail; (4) using a non-list target
twice fails with ReusedTargetError in both directions (no overwrite); (5) context-type changes leave the tree consistent
(the typed context is the object reachable from its parent, also inside lists).
"""
from __future__ import annotations

import random
from collections import OrderedDict

from symx.core import cv_of, is_sym
from symx.symfile import SymFile

PROPERTY_ID = "C21"
LEVEL = "exploration"
RULE = (
    "program = tree of primitive fields (bool, nbits, uint_lit, bitarray, bytes, uint, sint), byte alignment, bounded blocks with "
    "padding, nested (optionally typed) subcontexts, lists of primitives and of subcontexts, computed values; generated from a grammar "
    "with depth <= 3 and <= 7 operations per context (seeded) plus curated combinations; leaf values are symbolic bits; a case is "
    "non-trivial if the program nests a list, a subcontext or a bounded block; distinct = programs x perturbations"
)
BOUNDS = {"quick": "72 seeded programs + 8 curated; values: all fixed-width leaves symbolic (1-8 bits), the first 3 exp-Golomb leaves symbolic (3-bit magnitudes, sign), further ones concrete; perturbations: every context gets an extra key, every list an extra element, every leaf is removed once",
          "thorough": "500 seeded programs + 8 curated; same value widths"}
OUTSIDE = "programs beyond the grammar's depth/length; values wider than the bound; bounded blocks shorter than their content (covered for the I/O layer by C20)"
ASSUMPTIONS = ["byte_align and block padding appear where the bit position is statically known (no exp-Golomb field earlier in the same aligned run), so that a *complete* description can be built"]
STUBS = ["SymFile", "bytearray/bitarray stand-ins in vc2_conformance.bitstream.io"]
BUDGET_S = {"quick": 500, "thorough": 2400}
ENGINE_OPTS = {"max_decisions": 20000}
IFCONV = ["write_bit"]
REPLAYS_PER_LABEL = 2
MAX_SYMBOLIC_GOLOMB = 3

FIXED = {"bool": 1, "nbits": None, "uint_lit": 8, "bitarray": None, "bytes": None}


class TypedCtx(OrderedDict):
    """A dict-like context type for set_context_type."""


def _gen_ops(rnd, depth, pos, names, in_block=False):
    """Returns (ops, pos_after).  pos is the bit position modulo 8 or None when unknown."""
    ops = []
    n = rnd.randint(1, 5 if depth else 7)
    for _ in range(n):
        kinds = ["bool", "nbits", "uint_lit", "bitarray", "bytes", "computed"]
        if not in_block:
            kinds += ["uint", "sint", "uint", "sint"]
            if depth < 3:
                kinds += ["sub", "sub", "list", "list", "listsub"]
            if pos is not None:
                kinds += ["align", "block"]
        k = rnd.choice(kinds)
        t = "t%d" % next(names)
        if k == "bool":
            ops.append(("bool", t))
            pos = None if pos is None else (pos + 1) % 8
        elif k == "nbits":
            w = rnd.randint(0, 6)
            ops.append(("nbits", t, w))
            pos = None if pos is None else (pos + w) % 8
        elif k == "uint_lit":
            ops.append(("uint_lit", t, 1))
        elif k == "bitarray":
            w = rnd.randint(0, 5)
            ops.append(("bitarray", t, w))
            pos = None if pos is None else (pos + w) % 8
        elif k == "bytes":
            ops.append(("bytes", t, rnd.randint(0, 2)))
        elif k in ("uint", "sint"):
            ops.append((k, t))
            pos = None
        elif k == "computed":
            ops.append(("computed", t, rnd.choice([0, "label", (1, 2)])))
        elif k == "align":
            ops.append(("align", t, (8 - pos) % 8))
            pos = 0
        elif k == "block":
            inner, used = _gen_block(rnd, names)
            pad = rnd.randint(0, 4)
            ops.append(("block", t, used + pad, inner, pad))
            pos = (pos + used + pad) % 8
        elif k == "sub":
            inner, pos = _gen_ops(rnd, depth + 1, pos, names)
            ops.append(("sub", t, inner, rnd.random() < 0.5))
        elif k == "list":
            kind = rnd.choice(["bool", "nbits", "uint", "sint", "uint_lit"])
            cnt = rnd.randint(0, 3)
            w = rnd.randint(1, 5)
            ops.append(("list", t, kind, cnt, w))
            if kind in ("uint", "sint") and cnt:
                pos = None
            elif pos is not None:
                pos = (pos + cnt * {"bool": 1, "nbits": w, "uint_lit": 8}.get(kind, 0)) % 8
        elif k == "listsub":
            cnt = rnd.randint(1, 2)
            inners = []
            for _i in range(cnt):
                inner, pos = _gen_ops(rnd, depth + 1, pos, names)
                inners.append(inner)
            ops.append(("listsub", t, inners, rnd.random() < 0.5))
    return ops, pos


def _gen_block(rnd, names):
    ops = []
    used = 0
    for _ in range(rnd.randint(0, 3)):
        k = rnd.choice(["bool", "nbits", "bitarray"])
        t = "t%d" % next(names)
        if k == "bool":
            ops.append(("bool", t))
            used += 1
        else:
            w = rnd.randint(0, 5)
            ops.append((k, t, w))
            used += w
    return ops, used


def _counter():
    i = 0
    while True:
        yield i
        i += 1


CURATED = [
    [("blockx", "xpad", 4, [("list", "vs", "sint", 2, 0)]), ("nbits", "tail", 5)],
    [("nbits", "head", 3), ("blockx", "xpad", 6, [("sint", "s1"), ("uint", "u1")]), ("align", "apad", None)],
    [("blockx", "xpad", 0, [("uint", "u0")]), ("bool", "b")],
    [("listsub", "items", [[("nbits", "a", 3), ("block", "pad", 6, [("nbits", "b", 4)], 2)], [("nbits", "a", 3), ("block", "pad", 6, [("nbits", "b", 4)], 2)]], True)],
    [("sub", "outer", [("sub", "inner", [("uint", "v")], True), ("list", "vs", "sint", 3, 0)], True), ("computed", "note", "x")],
    [("nbits", "x", 3), ("align", "pad", 5), ("bytes", "data", 2), ("uint", "u"), ("sint", "s")],
    [("list", "bits", "bool", 0, 1), ("list", "ns", "nbits", 3, 5), ("bitarray", "ba", 5)],
    [("block", "pad", 9, [("bool", "f"), ("bitarray", "ba", 4)], 4), ("uint_lit", "byte", 1)],
    [("listsub", "units", [[("uint", "n")], [("sint", "m"), ("computed", "c", 7)]], False), ("uint", "tail")],
    [("sub", "a", [("sub", "b", [("sub", "c", [("bool", "leaf")], True)], False)], True)],
    [("computed", "first", 1), ("sint", "s"), ("list", "us", "uint", 2, 0)],
]


def _programs(tier, seed):
    rnd = random.Random(seed * 1000003 + 17)
    n = 72 if tier == "quick" else 500
    progs = [list(p) for p in CURATED]
    for _ in range(n):
        ops, _pos = _gen_ops(rnd, 0, 0, _counter())
        progs.append(ops)
    return progs


def tasks(tier, seed):
    progs = _programs(tier, seed)
    out = []
    B = 4
    for i in range(0, len(progs), B):
        out.append({"id": "roundtrip#%d" % (i // B), "harness": "roundtrip", "args": (i, min(len(progs), i + B), tier, seed)})
        out.append({"id": "perturb#%d" % (i // B), "harness": "perturb", "args": (i, min(len(progs), i + B), tier, seed)})
    return out


# ---------------------------------------------------------------------------- interpretation
def _run(serdes, ops, typed_seen=None):
    """Drive a (de)serialiser with a program."""
    for op in ops:
        k = op[0]
        if k == "bool":
            serdes.bool(op[1])
        elif k == "nbits":
            serdes.nbits(op[1], op[2])
        elif k == "uint_lit":
            serdes.uint_lit(op[1], op[2])
        elif k == "bitarray":
            serdes.bitarray(op[1], op[2])
        elif k == "bytes":
            serdes.bytes(op[1], op[2])
        elif k == "uint":
            serdes.uint(op[1])
        elif k == "sint":
            serdes.sint(op[1])
        elif k == "computed":
            serdes.computed_value(op[1], op[2])
        elif k == "align":
            serdes.byte_align(op[1])
        elif k == "block":
            with serdes.bounded_block(op[1], op[2]):
                _run(serdes, op[3], typed_seen)
        elif k == "blockx":
            # a bounded block that may be *shorter* than its exp-Golomb content (padding target left to its zero default)
            with serdes.bounded_block(op[1], op[2]):
                _run(serdes, op[3], typed_seen)
        elif k == "sub":
            with serdes.subcontext(op[1]):
                if op[3]:
                    serdes.set_context_type(TypedCtx)
                    if typed_seen is not None:
                        typed_seen.append(serdes.cur_context)
                _run(serdes, op[2], typed_seen)
        elif k == "list":
            serdes.declare_list(op[1])
            for _ in range(op[3]):
                if op[2] == "nbits":
                    serdes.nbits(op[1], op[4])
                elif op[2] == "uint_lit":
                    serdes.uint_lit(op[1], 1)
                else:
                    getattr(serdes, op[2])(op[1])
        elif k == "listsub":
            serdes.declare_list(op[1])
            for inner in op[2]:
                with serdes.subcontext(op[1]):
                    if op[3]:
                        serdes.set_context_type(TypedCtx)
                        if typed_seen is not None:
                            typed_seen.append(serdes.cur_context)
                    _run(serdes, inner, typed_seen)


def _describe(ops, val):
    """Complete description for a program; val(kind, width) makes a leaf value."""
    d = {}
    for op in ops:
        k = op[0]
        if k in ("bool", "uint", "sint"):
            d[op[1]] = val(k, None)
        elif k == "nbits":
            d[op[1]] = val("nbits", op[2])
        elif k == "uint_lit":
            d[op[1]] = val("nbits", 8)
        elif k == "bitarray":
            d[op[1]] = val("bitarray", op[2])
        elif k == "bytes":
            d[op[1]] = val("bytes", op[2])
        elif k == "computed":
            pass
        elif k == "align":
            d[op[1]] = val("bitarray", op[2] or 0)
        elif k == "block":
            d.update(_describe(op[3], val))
            d[op[1]] = val("bitarray", op[4])
        elif k == "blockx":
            d.update(_describe(op[3], val))
            d[op[1]] = val("bitarray", 0)  # zero-padded by the writer to whatever is left
        elif k == "sub":
            d[op[1]] = _describe(op[2], val)
        elif k == "list":
            d[op[1]] = [val("nbits", op[4]) if op[2] == "nbits" else val("nbits", 8) if op[2] == "uint_lit" else val(op[2], None) for _ in range(op[3])]
        elif k == "listsub":
            d[op[1]] = [_describe(inner, val) for inner in op[2]]
    return d


def _copy(d):
    if isinstance(d, dict):
        return {k: _copy(v) for k, v in d.items()}
    if isinstance(d, list):
        return [_copy(v) for v in d]
    return d


def _leaf_eq(prove_eq, a, b, path, bad):
    if isinstance(a, dict) or isinstance(b, dict):
        if not (isinstance(a, dict) and isinstance(b, dict)) or set(a) != set(b):
            bad.append("%s: keys %r vs %r" % (path, sorted(a) if isinstance(a, dict) else a, sorted(b) if isinstance(b, dict) else b))
            return
        for k in a:
            _leaf_eq(prove_eq, a[k], b[k], path + "." + k, bad)
    elif isinstance(a, (list, tuple)) and not isinstance(a, str) or hasattr(a, "tobytes") or hasattr(b, "tobytes") or isinstance(b, (list, bytes, bytearray)):
        la, lb = list(a), list(b)
        if len(la) != len(lb):
            bad.append("%s: lengths %d vs %d" % (path, len(la), len(lb)))
            return
        for i, (x, y) in enumerate(zip(la, lb)):
            _leaf_eq(prove_eq, x, y, "%s[%d]" % (path, i), bad)
    else:
        if not prove_eq(a, b, path):
            bad.append("%s: %r vs %r" % (path, cv_of(a), cv_of(b)))


def _paths(d, prefix=()):
    """All (container path, kind) perturbation points."""
    pts = []
    if isinstance(d, dict):
        pts.append((prefix, "extra-key"))
        for k, v in d.items():
            if isinstance(v, (dict, list)) and (isinstance(v, dict) or any(isinstance(x, dict) for x in v) or isinstance(v, list)):
                pts += _paths(v, prefix + (k,))
            if not isinstance(v, dict) and _has_leaf(v):
                pts.append((prefix + (k,), "remove"))  # (containers without any leaf are not needed: they are recreated empty)
    elif isinstance(d, list):
        pts.append((prefix, "extra-element"))
        for i, v in enumerate(d):
            if isinstance(v, dict):
                pts += _paths(v, prefix + (i,))
    return pts


def _has_leaf(v):
    if isinstance(v, dict):
        return any(_has_leaf(x) for x in v.values())
    if isinstance(v, list):
        return any(_has_leaf(x) for x in v)
    return True


def _at(d, path):
    for p in path:
        d = d[p]
    return d


def _serialise(ops, desc, typed_seen=None):
    import vc2_conformance.bitstream.serdes as S
    from vc2_conformance.bitstream.io import BitstreamWriter

    f = SymFile()
    w = BitstreamWriter(f)
    with S.Serialiser(w, desc) as ser:
        _run(ser, ops, typed_seen)
    w.flush()
    return f, ser


def _deserialise(ops, f, typed_seen=None):
    import vc2_conformance.bitstream.serdes as S
    from vc2_conformance.bitstream.io import BitstreamReader

    r = BitstreamReader(SymFile(f.getcells()))
    with S.Deserialiser(r) as des:
        _run(des, ops, typed_seen)
    return des.context


def _typed_consistent(context, ops):
    """Every typed subcontext must be a TypedCtx *inside the tree* (not a detached copy)."""
    ok = True
    for op in ops:
        if op[0] == "sub":
            c = context.get(op[1])
            if op[3] and type(c) is not TypedCtx:
                ok = False
            if isinstance(c, dict):
                ok = ok and _typed_consistent(c, op[2])
        elif op[0] == "listsub":
            lst = context.get(op[1], [])
            for c, inner in zip(lst, op[2]):
                if op[3] and type(c) is not TypedCtx:
                    ok = False
                if isinstance(c, dict):
                    ok = ok and _typed_consistent(c, inner)
        elif op[0] == "block":
            pass
    return ok


def _check_program(ops, val, choose, prove, prove_eq, fail, part):
    import vc2_conformance.bitstream.exceptions as X

    desc = _describe(ops, val)
    # (1) round trip
    dynamic = [op[1] for op in ops if op[0] == "blockx" or (op[0] == "align" and op[2] is None)]
    try:
        f, ser = _serialise(ops, _copy(desc))
    except ValueError as e:
        if dynamic and "past the end of a bounded block" in str(e):
            return  # a 0 bit beyond a too-short block must fail loudly: that is the documented behaviour
        fail("complete-description-does-not-serialise", [type(e).__name__, str(e)[:100]])
        return
    except Exception as e:  # noqa
        fail("complete-description-does-not-serialise", [type(e).__name__, str(e)[:100]])
        return
    try:
        back = _deserialise(ops, f)
    except Exception as e:  # noqa
        fail("own-output-does-not-deserialise", [type(e).__name__, str(e)[:100]])
        return
    expect = _with_computed(desc, ops)
    bad = []
    got = _plain(back)
    for t in dynamic:
        # padding left to its default: whatever length was needed, all zeros
        pad = list(got.pop(t, []))
        expect.pop(t, None)
        for i, b in enumerate(pad):
            prove_eq(b, 0, ".%s[%d]" % (t, i))
    _leaf_eq(prove_eq, got, expect, "", bad)
    if bad:
        fail("description-differs-after-round-trip", bad[:3])
    prove(_typed_consistent(ser.context, ops), "serialiser-context-types-consistent")
    prove(_typed_consistent(back, ops), "deserialiser-context-types-consistent")
    if part == "roundtrip":
        return
    # (2)/(3) one perturbation per path (selector)
    pts = _paths(desc)
    if pts:
        path, kind = pts[choose("perturb", len(pts))]
        d2 = _copy(desc)
        if kind == "extra-key":
            _at(d2, path)["zz_unused"] = 1
        elif kind == "extra-element":
            lst = _at(d2, path)
            lst.append(lst[0] if lst else 1)
            if lst and isinstance(lst[-1], dict):
                lst[-1] = _copy(lst[-1])
        else:
            del _at(d2, path[:-1])[path[-1]]
        try:
            _serialise(ops, d2)
            fail("perturbed-description-serialises", [kind, list(path)])
        except X.UnusedTargetError:
            prove(kind in ("extra-key", "extra-element"), "unused-value-detected", [kind, list(path)])
        except (KeyError, X.ListTargetExhaustedError, IndexError):
            prove(kind == "remove", "missing-value-detected", [kind, list(path)])
        except Exception as e:  # noqa
            fail("perturbation-raises-unexpected-exception", [kind, list(path), type(e).__name__, str(e)[:80]])
    # (4) no overwrite: the first primitive target used twice
    prims = [op for op in ops if op[0] in ("bool", "nbits", "uint", "sint", "uint_lit")]
    if prims:
        twice = ops + [prims[0]]
        for label, run in (("serialiser", lambda: _serialise(twice, _copy(desc))), ("deserialiser", lambda: _deserialise(twice, f))):
            try:
                run()
                fail("target-used-twice-accepted", [label])
            except X.ReusedTargetError:
                pass
            except EOFError:
                # the deserialiser reads before it stores: running out of input also prevents the overwrite
                prove(label == "deserialiser", "reuse-detected-before-overwrite", [label])
            except Exception as e:  # noqa
                fail("target-used-twice-wrong-exception", [label, type(e).__name__])


def _plain(x):
    if isinstance(x, dict):
        return {k: _plain(v) for k, v in x.items()}
    if isinstance(x, list):
        return [_plain(v) for v in x]
    return x


def _with_computed(desc, ops):
    d = dict(desc)
    for op in ops:
        if op[0] == "computed":
            d[op[1]] = op[2]
        elif op[0] == "sub":
            d[op[1]] = _with_computed(desc[op[1]], op[2])
        elif op[0] == "listsub":
            d[op[1]] = [_with_computed(x, inner) for x, inner in zip(desc[op[1]], op[2])]
        elif op[0] in ("block", "blockx"):
            # the block's operations act on the same context: continue from what has been computed so far (a copy of
            # the raw description here would overwrite computed values placed in earlier subcontexts)
            d = _with_computed(d, op[3])
    return d


def _value_factory(make_bits):
    """Leaf values: make_bits(name, nbits, default) -> int-like."""
    cnt = [0]
    golomb = [0]

    def val(kind, width):
        cnt[0] += 1
        nm = "v%d" % cnt[0]
        if kind == "bool":
            b = make_bits(nm, 1, cnt[0] % 2)
            return (b == 1) if is_sym(b) else bool(b)
        if kind == "nbits":
            return make_bits(nm, width, (5 * cnt[0]) % (1 << width) if width else 0) if width else 0
        if kind in ("uint", "sint"):
            golomb[0] += 1
            if golomb[0] > MAX_SYMBOLIC_GOLOMB:
                # further exp-Golomb fields are concrete: each symbolic one multiplies the paths by its length classes
                v = (cnt[0] * 3) % 8
                return v if kind == "uint" or cnt[0] % 2 else -v
        if kind == "uint":
            return make_bits(nm, 3, cnt[0] % 8)
        if kind == "sint":
            m = make_bits(nm, 3, (cnt[0] * 3) % 8)
            s = make_bits(nm + "s", 1, cnt[0] % 2)
            return m if not bool(s == 1) else -m
        if kind == "bitarray":
            from bitarray import bitarray
            bits = [make_bits("%s_%d" % (nm, i), 1, (cnt[0] + i) % 2) for i in range(width)]
            if any(is_sym(b) for b in bits):
                from symx.shims import SymBitArray
                return SymBitArray(bits)
            return bitarray(bits)
        if kind == "bytes":
            bs = [make_bits("%s_%d" % (nm, i), 8, (37 * cnt[0] + i) % 256) for i in range(width)]
            if any(is_sym(b) for b in bs):
                from symx.shims import SymBytes
                return SymBytes(bs)
            return bytes(bs)
        raise ValueError(kind)

    return val


def build(task):
    lo, hi, tier, seed = task["args"]
    progs = _programs(tier, seed)[lo:hi]

    def h(ctx):
        choose = lambda nm, n: ctx.concretize(ctx.sym_int(nm, 0, n - 1))
        pi = choose("program", len(progs))
        if task["harness"] == "roundtrip":
            val = _value_factory(lambda nm, n, d: ctx.sym_bits(nm, n, d) if n else 0)
        else:
            val = _value_factory(lambda nm, n, d: d)  # perturbation outcomes do not depend on the values
        _check_program(progs[pi], val, choose, lambda c, l, e=None: ctx.prove(bool(c) if not is_sym(c) else c, l, e),
                       lambda a, b, l: ctx.prove_eq(a, b, "leaf" + l), lambda l, e: ctx.fail(l, [lo + pi, e]), task["harness"])
        return "p%d" % (lo + pi)

    return h


def validate(task, inputs, outcome):
    return None


def replay(task, label, inputs, extra):
    lo, hi, tier, seed = task["args"]
    progs = _programs(tier, seed)[lo:hi]
    pi = inputs.get("program", 0)
    bad = []

    def bits(nm, n, d):
        v = 0
        for j in range(n):
            b = inputs.get("%s.%d" % (nm, j))
            v = (v << 1) | ((d >> (n - 1 - j)) & 1 if b is None else b)
        return v

    vf = _value_factory((lambda nm, n, d: bits(nm, n, d) if n else 0) if task["harness"] == "roundtrip" else (lambda nm, n, d: d))
    _check_program(progs[pi], vf, lambda nm, n: inputs.get(nm, 0),
                   lambda c, l, e=None: bad.append((l, e)) if not c else None,
                   lambda a, b, l: (a == b) or bad.append(("leaf" + l, [a, b])) or False, lambda l, e: bad.append((l, e)), task["harness"])
    return {"reproduced": bool(bad), "key": "C21:%s" % (bad[0][0].split(".")[0].split("[")[0] if bad else None),
            "detail": "program %d %r: %r" % (lo + pi, progs[pi], bad[:2])}


def canaries():
    def typed_context_in_list_not_reattached():
        import vc2_conformance.bitstream.serdes as S
        import inspect, textwrap

        src = inspect.getsource(S.SerDes.set_context_type)
        src = src.replace("parent_target_index - 1", "parent_target_index - 1 if parent_target_index == 1 else 0")
        assert "if parent_target_index == 1 else 0" in src
        ns = {}
        exec(compile(textwrap.dedent(src), "<canary>", "exec"), S.__dict__, ns)
        S.SerDes.set_context_type = ns["set_context_type"]

    def unused_list_tail_not_reported():
        import vc2_conformance.bitstream.serdes as S

        orig = S.SerDes._verify_target_complete

        def _verify_target_complete(self, target):
            index = self._cur_context_indices.get(target)
            if index is not True and index is not None and isinstance(self.cur_context[target], list) and index == len(self.cur_context[target]) - 1 and index >= 2:
                return
            return orig(self, target)

        S.SerDes._verify_target_complete = _verify_target_complete

    def setdefault_overwrites_subcontext():
        import vc2_conformance.bitstream.serdes as S

        def _setdefault_context_value(self, target, default):
            if target not in self._cur_context_indices:
                self._cur_context_indices[target] = True
                return self.cur_context.setdefault(target, default)
            elif self._cur_context_indices[target] is True:
                return self.cur_context.setdefault(target, default)
            else:
                i = self._cur_context_indices[target]
                self._cur_context_indices[target] += 1
                if i == len(self.cur_context[target]):
                    self.cur_context[target].append(default)
                return self.cur_context[target][i]

        S.SerDes._setdefault_context_value = _setdefault_context_value

    def computed_value_lost_in_typed_context():
        import vc2_conformance.bitstream.serdes as S

        orig = S.SerDes.computed_value

        def computed_value(self, target, value):
            if type(self.cur_context).__name__ == "TypedCtx" and isinstance(self, S.Deserialiser) and isinstance(value, tuple):
                self._cur_context_indices[target] = True
                return
            return orig(self, target, value)

        S.SerDes.computed_value = computed_value

    return [("typed_context_in_list_not_reattached", typed_context_in_list_not_reattached), ("unused_list_tail_not_reported", unused_list_tail_not_reported),
            ("computed_value_lost_in_typed_context", computed_value_lost_in_typed_context)]
