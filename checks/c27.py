"""C27 -- fixed-entry dictionaries never hold undeclared keys and pickle faithfully.

Real code: fixeddict.fixeddict (class factory) and the library's types State, VideoParameters, CodecFeatures,
ParseInfo, SequenceHeader, HQSlice.  Selector-symbolic: the operation and its key/value at each step are chosen
by solver-enumerated selectors; every operation sequence up to the bound is executed on the real type and on a
plain-dict model.
"""
from __future__ import annotations

import pickle

PROPERTY_ID = "C27"
LEVEL = "exploration"
RULE = (
    "history = constructor variant followed by up to N operations chosen from item assignment, setdefault, update (mapping / "
    "pairs / keywords), |=, |, copy, pickle round trip, each with a declared or an undeclared key; after every step: keys are a "
    "subset of the declared entries, an undeclared key raised FixedDictKeyError and left the dictionary unchanged, the content "
    "equals a plain-dict model, copy/unpickled objects are equal and of the same type; non-trivial = history with >= 1 undeclared key"
)
BOUNDS = {"quick": "6 types x 4 constructor variants x all histories of up to 3 operations out of 18-19 operation instances (incl. an underscore-prefixed declared entry where the type has one)",
          "thorough": "6 types x 4 constructor variants x all histories of up to 4 operations"}
OUTSIDE = "longer histories; dict methods not named in the property (e.g. fromkeys)"
ASSUMPTIONS = ["values are small integers; keys are the type's first two declared names and one undeclared name"]
STUBS = []
BUDGET_S = {"quick": 400, "thorough": 2400}
IFCONV = False


def _types():
    from vc2_conformance.pseudocode.state import State
    from vc2_conformance.pseudocode.video_parameters import VideoParameters
    from vc2_conformance.codec_features import CodecFeatures
    from vc2_conformance.bitstream.vc2_fixeddicts import ParseInfo, SequenceHeader, HQSlice

    return [State, VideoParameters, CodecFeatures, ParseInfo, SequenceHeader, HQSlice]


def tasks(tier, seed):
    n = 3 if tier == "quick" else 4
    out = []
    for ti in range(6):
        for cv in range(4):
            out.append({"id": "type%d ctor%d" % (ti, cv), "harness": "hist", "args": (ti, cv, n)})
    return out


def _ops(k1, k2, bad, ku=None):
    """Operation instances: (name, function(dict-like) -> result or None, keys touched)."""
    def setitem(k, v):
        return ("setitem %s" % k, lambda d: d.__setitem__(k, v), {k: v})

    def setdefault(k, v):
        return ("setdefault %s" % k, lambda d: d.setdefault(k, v), None)

    ops = [setitem(k1, 1), setitem(k2, 2), setitem(bad, 3), setdefault(k1, 4), setdefault(bad, 5),
           ("update mapping", lambda d: d.update({k1: 6, k2: 7}), None),
           ("update mapping bad", lambda d: d.update({k1: 8, bad: 9}), None),
           ("update pairs", lambda d: d.update([(k2, 10)]), None),
           ("update pairs bad", lambda d: d.update([(bad, 11)]), None),
           ("update kwargs", lambda d: d.update(**{k1: 12}), None),
           ("update kwargs bad", lambda d: d.update(**{bad: 13}), None),
           ("ior", "ior", {k1: 14}), ("ior bad", "ior", {k2: 15, bad: 16}), ("ior pairs bad", "ior", [(bad, 17)]),
           ("or", "or", {k2: 18}), ("copy", "copy", None), ("pickle", "pickle", None), ("delete", "del", k1)]
    if ku is not None:
        # a declared entry whose name starts with an underscore ("hidden" bookkeeping entries): must survive copy / pickle too
        ops.append(setitem(ku, 19))
    return ops


def _apply(cls, d, model, op, bad, report, FixedDictKeyError):
    """Apply op to the real object d and to the plain-dict model; returns the (possibly new) real object."""
    name, f, arg = op
    before = dict(d)
    raised = None
    new_d = d
    try:
        if f == "ior":
            d |= arg
            new_d = d
        elif f == "or":
            r = d | arg
            report("or-leaves-operand-alone", dict(d) == before, name)
        elif f == "copy":
            c = d.copy()
            report("copy-equal-and-same-type", type(c) is cls and dict(c) == dict(d) and c is not d, name)
            new_d = c
        elif f == "pickle":
            c = pickle.loads(pickle.dumps(d))
            report("pickle-equal-and-same-type", type(c) is cls and c == d and dict(c) == dict(d), name)
            c2 = pickle.loads(pickle.dumps(d, protocol=2))
            report("pickle-protocol2", type(c2) is cls and dict(c2) == dict(d), name)
            new_d = c
        elif f == "del":
            if arg in d:
                del d[arg]
        else:
            f(d)
    except FixedDictKeyError as e:
        raised = e
    except Exception as e:  # noqa
        report("unexpected-exception", False, [name, repr(e)])
        return d
    # model
    touches_bad = False
    try:
        m2 = dict(model)
        if f == "ior":
            items = list(arg.items()) if hasattr(arg, "items") else list(arg)
            touches_bad = any(k == bad for k, _ in items)
            for k, v in items:
                if k == bad:
                    break
                m2[k] = v
        elif f in ("or", "copy", "pickle"):
            pass
        elif f == "del":
            m2.pop(arg, None)
        else:
            class Rec(dict):
                pass

            rec = {}
            tb = [False]

            class M(dict):
                def __setitem__(s, k, v):
                    if k == bad:
                        tb[0] = True
                        raise KeyError(k)
                    dict.__setitem__(s, k, v)

                def setdefault(s, k, v):
                    if k == bad:
                        tb[0] = True
                        raise KeyError(k)
                    return dict.setdefault(s, k, v)

                def update(s, E=None, **F):
                    if E is not None:
                        for k, v in (E.items() if hasattr(E, "keys") else E):
                            s[k] = v
                    for k in F:
                        s[k] = F[k]

            mm = M(m2)
            try:
                f(mm)
            except KeyError:
                pass
            touches_bad = tb[0]
            m2 = dict(mm)
    except Exception as e:  # noqa
        report("model-error", False, repr(e))
        return d
    report("undeclared-key-raises-iff", (raised is not None) == touches_bad, [name, repr(raised)])
    report("only-declared-keys", set(new_d.keys()) <= set(cls.entry_objs), [name, sorted(map(str, new_d.keys()))])
    if (raised is not None) == touches_bad:
        # declared keys applied before the offending one may remain (update is documented item-wise); compare with the model
        report("content-equals-model", dict(new_d) == m2, [name, dict(new_d), m2])
        model.clear()
        model.update(m2)
    else:
        model.clear()
        model.update({k: v for k, v in dict(new_d).items() if k != bad})
    report("type-preserved", type(new_d) is cls, name)
    return new_d


def _run(ti, cv, choose, nops, report):
    from vc2_conformance.fixeddict import FixedDictKeyError

    cls = _types()[ti]
    names = list(cls.entry_objs)
    k1, k2 = names[0], names[1]
    bad = "not_a_declared_key"
    hidden = [n for n in names if n.startswith("_")]
    ops = _ops(k1, k2, bad, hidden[0] if hidden else None)
    model = {}
    try:
        if cv == 0:
            d = cls()
        elif cv == 1:
            d = cls(**{k1: 100})
            model = {k1: 100}
        elif cv == 2:
            d = cls({k2: 200})
            model = {k2: 200}
        else:
            try:
                d = cls(**{k1: 1, bad: 2})
                report("constructor-rejects-undeclared", False, "constructed with undeclared key")
            except FixedDictKeyError:
                d = cls([(k1, 300)])
                model = {k1: 300}
    except Exception as e:  # noqa
        report("constructor-unexpected-exception", False, repr(e))
        return []
    hist = []
    n = choose("n", nops + 1)
    for step in range(n):
        oi = choose("op%d" % step, len(ops))
        hist.append(ops[oi][0])
        d = _apply(cls, d, model, ops[oi], bad, lambda lab, ok, det=None: report(lab, ok, [hist[:], det]), FixedDictKeyError)
    return hist


def build(task):
    ti, cv, nops = task["args"]

    def h(ctx):
        hist = _run(ti, cv, lambda nm, n: ctx.concretize(ctx.sym_int(nm, 0, n - 1)), nops,
                    lambda lab, ok, det=None: ctx.prove(bool(ok), lab, det))
        return "%d ops" % len(hist)

    return h


def validate(task, inputs, outcome):
    return None


def replay(task, label, inputs, extra):
    ti, cv, nops = task["args"]
    bad = []
    hist = _run(ti, cv, lambda nm, n: inputs.get(nm, 0), nops, lambda lab, ok, det=None: bad.append((lab, det)) if not ok else None)
    return {"reproduced": bool(bad), "key": "C27:%s" % (bad[0][0] if bad else None),
            "detail": "type %s constructor variant %d history %r: %r" % (_types()[ti].__name__, cv, hist, bad[:2])}


def canaries():
    def ior_bypasses_check():
        from vc2_conformance import fixeddict as F

        for cls in _types():
            if "__ior__" in cls.__dict__:
                delattr(cls, "__ior__")

    def setdefault_unchecked():
        for cls in _types():
            cls.setdefault = lambda self, k, v: dict.setdefault(self, k, v)

    def reduce_loses_type():
        for cls in _types()[:2]:
            cls.__reduce__ = lambda self: (dict, (dict(self),))

    return [("ior_bypasses_check", ior_bypasses_check), ("setdefault_unchecked", setdefault_unchecked), ("reduce_loses_type", reduce_loses_type)]
