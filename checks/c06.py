"""C06 -- deserialising then serialising any parseable stream reproduces its bytes.

Real code: bitstream/vc2.py (all of the serdes programs), bitstream/serdes.py (Deserialiser, Serialiser,
context handling), bitstream/io.py.

Symbolic: every bit of chosen byte regions of committed fixture streams (also regions that make the
stream non-conformant: parse codes, next_parse_offset of padding/auxiliary units, slice length fields,
header windows).  Per path where deserialisation completes: serialising the description onto a SymFile
must not raise and every output byte equals the input byte (z3); deserialising the output again gives an
equal description.
"""
from __future__ import annotations

import io
import random

from lib import dec
from symx.core import cv_of, is_sym
from symx.symfile import SymFile

PROPERTY_ID = "C06"
LEVEL = "model_checking"
RULE = (
    "task = (fixture stream, symbolic byte region); all paths of the real Deserialiser over the region's bits are explored; on "
    "every path that parses to completion the real Serialiser is run on the resulting description and each output byte is proved "
    "equal to the (symbolic) input byte; the output is deserialised again and the two descriptions compared structurally"
)
BOUNDS = {
    "quick": "12 fixtures; regions: parse code + next_parse_offset (5 bytes) of every unit, every 1-byte window of the first sequence header, 2 seeded 2-byte windows per picture/fragment/padding unit, and every 2-byte window of the picture units of ld_min and hq_tiny_lossless (all slice qindex/length fields and payload bytes)",
    "thorough": "23 fixtures; all 2-byte windows over the first 12 bytes of every picture/fragment unit; all 2-byte windows over the sequence header of 3 fixtures",
}
OUTSIDE = "regions larger than the bound; byte strings the deserialiser does not parse to completion (EOFError etc.) are outside the property"
ASSUMPTIONS = [
    "SymFile stands for the files; bytearray/bitarray stand-ins in bitstream.io when cells are symbolic",
    "Deserialiser.uint/uint_lit are wrapped in-process: paths declaring picture sizes, depths, slice counts, prefix bytes or unit lengths above dec.SERDES_BOUNDS are abandoned as out of scope",
]
STUBS = ["SymFile", "bytearray/bitarray stand-ins in vc2_conformance.bitstream.io"]
BUDGET_S = {"quick": 700, "thorough": 3200}
ENGINE_OPTS = {"max_decisions": 20000}
REPLAYS_PER_LABEL = 2
# sign bits fork here (few symbolic coefficients per region): values stay linear and queries trivial
IFCONV = ["write_bit"]

QUICK_FIXTURES = ["hq_min", "hq_frag", "ld_min", "ld_frag", "hq_fields", "hq_asym", "hq_padaux_payload", "hq_2headers", "hq_lossless", "two_sequences", "hq_tiny_lossless", "hq_v3_pics", "hq_asym_then_sym"]


def _regions(name, meta, tier, rnd):
    out = []
    quick = tier == "quick"
    seen_header = False
    for i, (off, code, npo, ln) in enumerate(meta["units"]):
        out.append(("code+npo%d" % i, [(off + 4, 5)]))
        body, end = off + 13, off + ln
        if code == 0x10:
            continue
        if code == 0x00:
            # sequence header: every value of 2 bytes is a different parse; 1-byte windows everywhere (first header
            # only), 2-byte windows only at thorough tier on the header fixtures
            if seen_header:
                continue
            seen_header = True
            for s in range(body, end):
                out.append(("u%d@%d/1" % (i, s - off), [(s, 1)]))
            if not quick and name in HEADER2_FIXTURES:
                for s in range(body, end - 1):
                    out.append(("u%d@%d" % (i, s - off), [(s, 2)]))
            continue
        starts = list(range(body, min(end, body + (24 if quick else 12)) - 1))
        if quick and name in SLICE_FIXTURES and code in (0xC8, 0xE8):
            starts = list(range(body, end - 1))  # every window, incl. all slice headers (qindex, length fields)
        elif quick:
            starts = sorted(rnd.sample(starts, min(2, len(starts))))
        for s in starts:
            out.append(("u%d@%d" % (i, s - off), [(s, 2)]))
    return out


HEADER2_FIXTURES = ["hq_min", "hq_asym", "ld_min"]
SLICE_FIXTURES = ["ld_min", "hq_tiny_lossless"]


def precheck():
    return dec.verify_fixtures(PROPERTY_ID)


def tasks(tier, seed):
    rnd = random.Random(seed)
    idx = dec.fixture_index()
    names = sorted(idx) if tier == "thorough" else QUICK_FIXTURES
    out = []
    for name in names:
        for label, regions in _regions(name, idx[name], tier, rnd):
            out.append({"id": "%s/%s" % (name, label), "harness": "region", "args": (name, regions)})
    return out


def _deser(f):
    from vc2_conformance import bitstream as B
    from vc2_conformance.pseudocode.state import State

    r = B.BitstreamReader(f)
    with B.Deserialiser(r) as des:
        B.parse_stream(des, State())
    return des.context


def _ser(context, f):
    from vc2_conformance import bitstream as B
    from vc2_conformance.pseudocode.state import State

    w = B.BitstreamWriter(f)
    with B.Serialiser(w, context, B.vc2_default_values) as ser:
        B.parse_stream(ser, State())
    w.flush()


def _strip(x):
    """Description without the computed '_state'/'_offset' style entries, as plain nested lists/dicts."""
    if isinstance(x, dict):
        return {k: _strip(v) for k, v in x.items() if not (isinstance(k, str) and k.startswith("_"))}
    if isinstance(x, (list, tuple)):
        return [_strip(v) for v in x]
    if hasattr(x, "tobytes") or hasattr(x, "to01"):
        return list(x)
    return x


def _same(ctx_prove_eq, a, b, path=""):
    """Structural comparison; leaf equalities go to prove_eq.  Returns list of structural mismatches."""
    bad = []
    if isinstance(a, dict) and isinstance(b, dict):
        if set(a) != set(b):
            bad.append("%s: keys %r vs %r" % (path, sorted(a), sorted(b)))
        for k in a:
            if k in b:
                bad += _same(ctx_prove_eq, a[k], b[k], "%s.%s" % (path, k))
    elif isinstance(a, list) and isinstance(b, list):
        if len(a) != len(b):
            bad.append("%s: lengths %d vs %d" % (path, len(a), len(b)))
        for i, (x, y) in enumerate(zip(a, b)):
            bad += _same(ctx_prove_eq, x, y, "%s[%d]" % (path, i))
    elif isinstance(a, (bytes, bytearray)) or isinstance(b, (bytes, bytearray)):
        bad += _same(ctx_prove_eq, list(a), list(b), path)
    else:
        if not ctx_prove_eq(a, b, path):
            bad.append("%s: %r != %r" % (path, cv_of(a), cv_of(b)))
    return bad


def build(task):
    name, regions = task["args"]
    data, meta = dec.fixture(name)
    dec.install_serdes_bounds()

    def h(ctx):
        cells = dec.sym_region(ctx, data, regions)
        try:
            desc = _deser(SymFile(cells))
        except Exception as e:  # not parsed to completion: outside the property
            return ["not-parsed", type(e).__name__]
        wf = SymFile()
        try:
            _ser(desc, wf)
        except Exception as e:
            ctx.fail("serialise-raises", [type(e).__name__, str(e)[:100]])
            return ["serialise-raises", type(e).__name__]
        out = wf.getcells()
        ctx.prove(len(out) == len(cells), "output-length", [len(out), len(cells)])
        ctx.prove_all([(a == b) for a, b in zip(out, cells)], "output-bytes")
        try:
            desc2 = _deser(SymFile(out))
        except Exception as e:
            ctx.fail("re-deserialise-raises", [type(e).__name__, str(e)[:100]])
            return ["re-deserialise-raises", type(e).__name__]
        bad = _same(lambda a, b, p: ctx.prove_eq(a, b, "description" + p) if (is_sym(a) or is_sym(b)) else a == b, _strip(desc), _strip(desc2))
        if bad:
            ctx.fail("descriptions-differ", bad[:3])
        return ["roundtrip"]

    return h


def _plain(task, inputs):
    name, regions = task["args"]
    data, meta = dec.fixture(name)
    b = dec.bytes_from_inputs(data, inputs)
    try:
        desc = _deser(io.BytesIO(b))
    except Exception as e:
        return b, ["not-parsed", type(e).__name__], None
    wf = io.BytesIO()
    try:
        _ser(desc, wf)
    except Exception as e:
        return b, ["serialise-raises", type(e).__name__], "%s: %s" % (type(e).__name__, str(e)[:100])
    out = wf.getvalue()
    if out != b:
        i = next((i for i, (x, y) in enumerate(zip(out, b)) if x != y), min(len(out), len(b)))
        return b, ["bytes-differ"], "output %s differs from input at byte %d (lengths %d/%d)" % (out.hex(), i, len(out), len(b))
    try:
        desc2 = _deser(io.BytesIO(out))
    except Exception as e:
        return b, ["re-deserialise-raises", type(e).__name__], str(e)[:100]
    bad = _same(lambda x, y, p: x == y, _strip(desc), _strip(desc2))
    if bad:
        return b, ["descriptions-differ"], "; ".join(bad[:3])
    return b, ["roundtrip"], None


def validate(task, inputs, outcome):
    b, got, detail = _plain(task, inputs)
    if got[0] in ("bytes-differ", "descriptions-differ"):
        return None  # reported through the failing obligation
    if list(outcome) != got:
        return "path predicted %r, plain code gives %r on %s" % (outcome, got, b.hex())
    return None


def replay(task, label, inputs, extra):
    b, got, detail = _plain(task, inputs)
    if got[0] in ("not-parsed", "roundtrip"):
        return {"reproduced": False, "key": None, "detail": "plain code: %r on %s" % (got, b.hex())}
    return {"reproduced": True, "key": "C06:%s" % ":".join(got), "detail": "%s; stream %s" % (detail, b.hex())}


def MIN_REACH(outcomes, per_task, tasks):
    import json

    rt = sum(n for k, n in outcomes.items() if json.loads(k)[0] == "roundtrip")
    if rt < 200:
        return "only %d round-trip paths" % rt
    return None


def canaries():
    def ld_slice_length_not_clamped_on_write():
        import vc2_conformance.bitstream.vc2 as V
        import inspect, textwrap

        src = inspect.getsource(V.ld_slice)
        src = src.replace("    if slice_y_length > slice_bits_left:\n        slice_y_length = slice_bits_left\n",
                          "    if slice_y_length > slice_bits_left and not hasattr(serdes, '_serialiser_marker'):\n        slice_y_length = slice_bits_left\n")
        assert "hasattr" in src
        ns = {}
        exec(compile(textwrap.dedent(src), "<canary>", "exec"), V.__dict__, ns)
        V.ld_slice = ns["ld_slice"]
        from vc2_conformance.bitstream.serdes import Serialiser

        Serialiser._serialiser_marker = True

    def frame_rate_index_substituted_on_write():
        import vc2_conformance.bitstream.serdes as S

        orig = S.Serialiser.uint

        def uint(self, target):
            v = orig(self, target)
            return v

        # out-of-range preset index is replaced *and written back*: mimic by rewriting the stored value
        import vc2_conformance.bitstream.vc2 as V

        orig_fr = V.frame_rate.__wrapped__ if hasattr(V.frame_rate, "__wrapped__") else V.frame_rate

        def patched_uint(self, target):
            if target == "index" and isinstance(self, S.Serialiser):
                cur = self._get_context_value(target) if False else None
            return orig(self, target)

        S.Serialiser.uint = patched_uint
        orig_bool = S.Deserialiser.uint

        def des_uint(self, target):
            v = orig_bool(self, target)
            if target == "index" and not isinstance(v, bool):
                try:
                    if v == 23:
                        self.cur_context[target] = 1
                        return 1
                except Exception:
                    pass
            return v

        S.Deserialiser.uint = des_uint

    def padding_bits_dropped():
        import vc2_conformance.bitstream.serdes as S

        orig = S.Serialiser.byte_align

        def byte_align(self, target):
            from bitarray import bitarray

            try:
                v = self.cur_context.get(target)
                if v is not None and len(v) == 5:
                    self.cur_context[target] = bitarray("0" * 5)
            except Exception:
                pass
            return orig(self, target)

        S.Serialiser.byte_align = byte_align

    return [("ld_slice_length_not_clamped_on_write", ld_slice_length_not_clamped_on_write),
            ("padding_bits_dropped", padding_bits_dropped)]
