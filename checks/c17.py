"""C17 -- constraint-table queries follow set semantics.

Real code: constraint_table.{ValueSet, AnyValue, filter_constraint_table, is_allowed_combination, allowed_values_for,
read_constraints_from_csv}.  Selector-symbolic: values, range bounds, operation choices, table cells and CSV cell
kinds are solver-enumerated selectors over small domains; the oracle is a Python set of integers.
"""
from __future__ import annotations

import os
import tempfile

PROPERTY_ID = "C17"
LEVEL = "exploration"
RULE = (
    "(sets) every sequence of up to N add_value/add_range/+ operations over a small integer domain: membership of every probe, "
    "iter_values and is_disjoint (against every second set of up to 2 operations) equal the Python-set model; (tables) every table "
    "of 2 keys x C columns with cells from {0}, {1}, {0..1}, {}, any, key-absent and every partial assignment: v in allowed_values_for(key | rest) "
    "<=> is_allowed_combination(rest + {key: v}), and value-at-a-time checking accepts exactly the assignments whose every prefix is "
    "allowed; (csv) every table of 2 keys x 2 columns with cells from 7 textual kinds read back equals what was written; "
    "non-trivial = at least one range or 'any' involved"
)
BOUNDS = {"quick": "sets: domain 0..4, <=3 operations, pairs with <=2 operations over 0..3; tables: 2 columns; csv: 2x2 cells of 7 kinds",
          "thorough": "sets: domain 0..5, <=4 operations (seeded 150000), pairs <=2 operations over 0..4; tables: 3 columns; csv: 2x3 cells"}
OUTSIDE = "larger domains, longer operation sequences, tables with catch-all (empty) columns"
ASSUMPTIONS = ["integer values only (the level tables also hold booleans, which are integers 0/1 in Python)"]
STUBS = []
BUDGET_S = {"quick": 500, "thorough": 2400}
IFCONV = False


def _opset(dom):
    ops = [("v", v) for v in range(dom + 1)] + [("r", lo, hi) for lo in range(dom + 1) for hi in range(lo, dom + 1)]
    return ops


def tasks(tier, seed):
    q = tier == "quick"
    out = []
    dom = 4 if q else 5
    nops = 3 if q else 4
    ops = _opset(dom)
    for first in range(len(ops)):
        out.append({"id": "set first=%d" % first, "harness": "set", "args": (dom, nops, first)})
    pdom = 3 if q else 4
    pops = _opset(pdom)
    for first in range(len(pops) + 1):
        out.append({"id": "pair first=%d" % first, "harness": "pair", "args": (pdom, first)})
    ncol = 2 if q else 3
    for c0 in range(6):
        for c1 in range(6):
            if c0 == 5 and c1 == 5:
                continue  # an empty column is the documented catch-all rule: outside the property
            out.append({"id": "table %d%d" % (c0, c1), "harness": "table", "args": (ncol, c0, c1)})
    for c0 in range(7):
        out.append({"id": "csv %d" % c0, "harness": "csv", "args": (2 if q else 3, c0)})
    return out


def _apply(vs_cls, ops_list):
    vs = vs_cls()
    model = set()
    for op in ops_list:
        if op[0] == "v":
            vs.add_value(op[1])
            model.add(op[1])
        else:
            vs.add_range(op[1], op[2])
            model.update(range(op[1], op[2] + 1))
    return vs, model


CELLS = [("v0", lambda C: C.ValueSet(0), {0}), ("v1", lambda C: C.ValueSet(1), {1}), ("r01", lambda C: C.ValueSet((0, 1)), {0, 1}),
         ("empty", lambda C: C.ValueSet(), set()), ("any", lambda C: C.AnyValue(), None),
         ("absent", None, set())]  # the column does not mention the key at all (ragged table): nothing is allowed for it
CSV_CELLS = [("0", {0}), ("1", {1}), ("0-2", {0, 1, 2}), ('"0,2"', {0, 2}), ("any", None), ("", set()), ('""""', "ditto")]


def _run(task, choose, report):
    import vc2_conformance.constraint_table as C

    hname = task["harness"]
    if hname == "set":
        dom, nops, first = task["args"]
        ops = _opset(dom)
        n = choose("n", nops)  # further operations after the first
        seq = [ops[first]] + [ops[choose("op%d" % i, len(ops))] for i in range(n)]
        use_plus = choose("plus", 2)
        if use_plus and len(seq) >= 2:
            a, ma = _apply(C.ValueSet, seq[: len(seq) // 2])
            b, mb = _apply(C.ValueSet, seq[len(seq) // 2:])
            vs, model = a + b, ma | mb
            report("plus-leaves-operands-alone", set(a.iter_values()) == ma and set(b.iter_values()) == mb, seq)
            # the union is a new set: changing it afterwards must not change the operands (and vice versa)
            vs.add_value(dom + 3)
            model = model | {dom + 3}
            report("union-result-independent-of-operands", set(a.iter_values()) == ma and set(b.iter_values()) == mb, seq)
            e = C.ValueSet()
            u = e + a
            u.add_range(dom + 5, dom + 6)
            report("union-with-empty-is-a-copy", set(a.iter_values()) == ma and set(e.iter_values()) == set(), seq)
        else:
            vs, model = _apply(C.ValueSet, seq)
        for p in range(-1, dom + 2):
            report("membership", (p in vs) == (p in model), [seq, p])
        vals = list(vs.iter_values())
        report("iter_values", sorted(vals) == sorted(model), [seq, sorted(vals)])
        report("any-union", isinstance(vs + C.AnyValue(), C.AnyValue) and 99 in (vs + C.AnyValue()), seq)
        return seq
    if hname == "pair":
        dom, first = task["args"]
        ops = _opset(dom)
        s1 = ([] if first == len(ops) else [ops[first]])
        if s1 and choose("n1", 2):
            s1.append(ops[choose("a1", len(ops))])
        s2 = [ops[choose("b%d" % i, len(ops))] for i in range(choose("n2", 3))]
        a, ma = _apply(C.ValueSet, s1)
        b, mb = _apply(C.ValueSet, s2)
        report("is_disjoint", bool(a.is_disjoint(b)) == (not (ma & mb)), [s1, s2])
        report("is_disjoint-symmetric", bool(b.is_disjoint(a)) == (not (ma & mb)), [s1, s2])
        report("is_disjoint-any", bool(a.is_disjoint(C.AnyValue())) == (not ma) and bool(C.AnyValue().is_disjoint(a)) == (not ma), [s1])
        return [s1, s2]
    if hname == "table":
        ncol, c0, c1 = task["args"]
        cols = [(c0, c1)] + [(choose("c%d_0" % j, 6), choose("c%d_1" % j, 6)) for j in range(1, ncol)]
        cols = [(a, b) if (a, b) != (5, 5) else (3, 5) for a, b in cols]
        table = [{k: CELLS[i][1](C) for k, i in (("k1", a), ("k2", b)) if CELLS[i][1] is not None} for a, b in cols]
        models = [(CELLS[a][2], CELLS[b][2]) for a, b in cols]

        def allowed(vals):
            return any(all((m[i] is None or vals[k] in m[i]) for i, k in enumerate(("k1", "k2")) if k in vals) for m in models)

        v1 = choose("v1", 4) - 1  # -1 = absent
        v2 = choose("v2", 4) - 1
        rest = {}
        if v1 >= 0:
            rest["k1"] = v1
        desc = [[CELLS[a][0], CELLS[b][0]] for a, b in cols]
        report("is_allowed_combination", bool(C.is_allowed_combination(table, dict(rest))) == allowed(rest), [desc, rest])
        if v2 >= 0:
            av = C.allowed_values_for(table, "k2", dict(rest))
            if not isinstance(av, C.AnyValue):
                before = [sorted(map(repr, col.get("k2", []))) if not isinstance(col.get("k2"), C.AnyValue) else "any" for col in table]
                av.add_value(77)
                after = [sorted(map(repr, col.get("k2", []))) if not isinstance(col.get("k2"), C.AnyValue) else "any" for col in table]
                report("query-result-does-not-alias-the-table", before == after, [desc, rest])
                av = C.allowed_values_for(table, "k2", dict(rest))
            both = dict(rest, k2=v2)
            report("allowed_values_for<=>is_allowed_combination", (v2 in av) == bool(C.is_allowed_combination(table, both)), [desc, both])
            report("is_allowed_combination", bool(C.is_allowed_combination(table, both)) == allowed(both), [desc, both])
            if v1 >= 0:
                inc = (v1 in C.allowed_values_for(table, "k1", {})) and (v2 in C.allowed_values_for(table, "k2", {"k1": v1}))
                report("incremental<=>all-prefixes", bool(inc) == (allowed({"k1": v1}) and allowed(both)), [desc, both])
        return [desc, v1, v2]
    # csv
    ncol, c0 = task["args"]
    kinds = [[c0] + [choose("r0c%d" % j, 7) for j in range(1, ncol)], [choose("r1c%d" % j, 7) for j in range(ncol)]]
    if kinds[0][0] == 6:
        kinds[0][0] = 5  # a ditto in the first column has nothing to repeat: written as an empty cell
    if kinds[1][0] == 6:
        kinds[1][0] = 5
    lines = ["# comment,,", ""]
    for r, key in enumerate(("k1", "k2")):
        lines.append(",".join([key] + [CSV_CELLS[k][0] for k in kinds[r]]))
    text = "\n".join(lines) + "\n"
    fd, path = tempfile.mkstemp(suffix=".csv", prefix="c17_")
    try:
        with os.fdopen(fd, "w") as f:
            f.write(text)
        table = C.read_constraints_from_csv(path)
    finally:
        os.unlink(path)
    report("csv-columns", len(table) == ncol, [text, len(table)])
    for r, key in enumerate(("k1", "k2")):
        last = set()
        for j in range(min(ncol, len(table))):
            m = CSV_CELLS[kinds[r][j]][1]
            if m == "ditto":
                m = last
            cell = table[j].get(key)
            if cell is None:
                report("csv-cell-present", False, [text, key, j])
                continue
            if m is None:
                report("csv-any", isinstance(cell, C.AnyValue), [text, key, j])
            else:
                report("csv-cell", (not isinstance(cell, C.AnyValue)) and all((p in cell) == (p in m) for p in range(-1, 5)), [text, key, j, str(cell)])
            last = m
    return text


def build(task):
    def h(ctx):
        _run(task, lambda nm, n: ctx.concretize(ctx.sym_int(nm, 0, n - 1)), lambda lab, ok, det=None: ctx.prove(bool(ok), lab, det))
        return task["harness"]

    return h


def validate(task, inputs, outcome):
    return None


def replay(task, label, inputs, extra):
    bad = []
    r = _run(task, lambda nm, n: inputs.get(nm, 0), lambda lab, ok, det=None: bad.append((lab, det)) if not ok else None)
    return {"reproduced": bool(bad), "key": "C17:%s" % (bad[0][0] if bad else None), "detail": "%r" % (bad[:2],)}


def canaries():
    def range_merge_misses_adjacent_overlap():
        import vc2_conformance.constraint_table as C

        def add_range(self, lower_bound, upper_bound):
            for value in list(self._values):
                if lower_bound <= value <= upper_bound:
                    self._values.remove(value)
            rm = []
            for lo, hi in self._ranges:
                if lower_bound < hi and lo <= upper_bound:  # '<' instead of '<=': touching at hi not merged...
                    rm.append((lo, hi))
                    lower_bound = min(lower_bound, lo)
                    upper_bound = max(upper_bound, hi)
                elif lower_bound == hi:
                    rm.append((lo, hi))  # ...and the old range is dropped
            for r in rm:
                self._ranges.remove(r)
            self._ranges.add((lower_bound, upper_bound))

        C.ValueSet.add_range = add_range

    def disjoint_ignores_contained_range():
        import vc2_conformance.constraint_table as C

        def is_disjoint(self, other):
            if isinstance(other, C.AnyValue):
                return not (self._values or self._ranges)
            for a, b in [(self, other), (other, self)]:
                for value in a._values:
                    if value in b:
                        return False
            for start, end in self._ranges:
                if start in other or end in other:
                    return False
            return True

        C.ValueSet.is_disjoint = is_disjoint

    def allowed_values_ignores_first_column_any():
        import vc2_conformance.constraint_table as C

        orig = C.allowed_values_for

        def allowed_values_for(table, key, values={}, any_value=C.AnyValue()):
            out = C.ValueSet()
            for i, comb in enumerate(C.filter_constraint_table(table, values)):
                cell = comb.get(key, C.ValueSet())
                if isinstance(cell, C.AnyValue) and len(table) > 1 and comb is table[-1] and values:
                    continue
                out += cell
            return any_value if isinstance(out, C.AnyValue) else out

        C.allowed_values_for = allowed_values_for

    def ditto_copies_two_left():
        import vc2_conformance.constraint_table as C

        orig = C.is_ditto
        state = {"n": 0}

        def is_ditto(s):
            return orig(s) and False if s.strip() == '"' and state.setdefault("skip", False) else orig(s)

        def read(csv_filename):
            t = orig_read(csv_filename)
            if len(t) >= 2:
                for k in t[1]:
                    pass
            return t

        orig_read = C.read_constraints_from_csv

        def read2(csv_filename):
            import csv

            t = orig_read(csv_filename)
            with open(csv_filename) as f:
                rows = [r for r in csv.reader(f) if r and not all((not c.strip()) or c.strip().startswith("#") for c in r)]
            for r in rows:
                for i, c in enumerate(r[1:]):
                    if C.is_ditto(c) and i >= 1 and r[1 + i - 1].strip() == "any":
                        t[i][r[0]] = C.ValueSet()
            return t

        C.read_constraints_from_csv = read2

    return [("range_merge_misses_adjacent_overlap", range_merge_misses_adjacent_overlap), ("disjoint_ignores_contained_range", disjoint_ignores_contained_range),
            ("allowed_values_ignores_first_column_any", allowed_values_ignores_first_column_any), ("ditto_copies_two_left", ditto_copies_two_left)]
