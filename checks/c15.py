"""C15 -- every generated sequence header encodes exactly the requested video format.

Real code: encoder/sequence_header.py (iter_sequence_headers and everything below it), codec_features_to_trivial_level_constraints,
bitstream.vc2.sequence_header through the real Serialiser/BitstreamWriter, decoder.sequence_header and everything it calls
(level constraints, preset tables), pseudocode/video_parameters.py.

Symbolic: frame size and clean area, frame-rate and pixel-aspect-ratio numerators/denominators, signal offsets and
excursions (bounded bit width), on top of every base video format; under level 0 the values stay symbolic all the way
through encoder -> serialiser -> decoder.  Real levels: every (level, base video format, profile) the encoder accepts is
checked with the format's own parameters (concrete, enumerated).
"""
from __future__ import annotations

import io
import itertools
import random

from symx.core import cv_of, is_sym
from symx.symfile import SymFile

PROPERTY_ID = "C15"
LEVEL = "model_checking"
RULE = (
    "case = (base video format, group of symbolic parameters, picture coding mode, k-th alternative header of iter_sequence_headers); "
    "the header is serialised by the real Serialiser onto a symbolic file and parsed by the real decoder's sequence_header under "
    "the configured level; z3 proves every returned video parameter and the picture coding mode equal to the request; "
    "real levels: every level-table column x base format x {defaults, each allowed frame-rate preset, scan format, signal-range preset} the encoder accepts, concrete"
)
BOUNDS = {
    "quick": "23 base formats x 5 parameter groups (frame size+clean area, frame rate, pixel aspect ratio, luma range, colour-difference range) x 1 coding mode (alternating), first 2 alternative headers, symbolic values of 8 bits (frame size 1..255 etc.); real levels: first alternative",
    "thorough": "first 3 alternative headers, symbolic values of 10 bits, both coding modes per group; real levels: first 6 alternatives",
}
OUTSIDE = "larger values; enum-valued parameters are enumerated (every single deviation from the base format and every colour primaries x matrix x transfer-function combination), not symbolic"
ASSUMPTIONS = ["clean area is tied to the frame size (clean = frame, offsets 0) when the frame size is symbolic", "symbolic frame sizes are multiples of 4 (regular formats: valid for every chroma format and for field coding)"]
STUBS = ["SymFile", "bytearray stand-ins"]
BUDGET_S = {"quick": 600, "thorough": 3000}
ENGINE_OPTS = {"max_decisions": 20000}
IFCONV = True
REPLAYS_PER_LABEL = 2

GROUPS = ["size", "frame_rate", "aspect", "luma", "chroma"]


def _base_formats():
    from vc2_data_tables import BaseVideoFormats

    return [int(b) for b in BaseVideoFormats]


def tasks(tier, seed):
    out = []
    nalt = 2 if tier == "quick" else 3
    bits = 8 if tier == "quick" else 10
    for b in _base_formats():
        for gi, g in enumerate(GROUPS):
            for pcm in ((0, 1) if tier != "quick" else ((b + gi) % 2,)):
                out.append({"id": "b%d %s pcm%d" % (b, g, pcm), "harness": "sym", "args": (b, g, pcm, nalt, bits)})
    for b in _base_formats():
        out.append({"id": "b%d enum-valued parameters" % b, "harness": "enums", "args": (b, 2 if tier == "quick" else 8)})
    out.append({"id": "real levels", "harness": "levels", "args": (1 if tier == "quick" else 6,)})
    return out


def _codec_features(base, pcm, vp_over, level=0, profile=3):
    from vc2_conformance.codec_features import CodecFeatures
    from vc2_conformance.pseudocode.video_parameters import set_source_defaults
    from vc2_data_tables import Levels, Profiles, PictureCodingModes, WaveletFilters, BaseVideoFormats

    vp = set_source_defaults(BaseVideoFormats(base))
    vp.update(vp_over)
    return CodecFeatures(name="c15", level=Levels(level), profile=Profiles(profile), picture_coding_mode=PictureCodingModes(pcm),
                         video_parameters=vp, wavelet_index=WaveletFilters.haar_with_shift, wavelet_index_ho=WaveletFilters.haar_with_shift,
                         dwt_depth=1, dwt_depth_ho=0, slices_x=1, slices_y=1, fragment_slice_count=0, lossless=False,
                         picture_bytes=64, quantization_matrix=None)


def _group_values(group, bits, sym):
    """sym(name, nbits, default, minimum) -> value made of bit atoms (no later bit-blasting needed)."""
    if group == "size":
        # regular formats only (documented precondition): multiples of 4 suit every chroma format and field coding
        wq = sym("frame_width/4", bits - 2, 3, 1)
        hq = sym("frame_height/4", bits - 2, 2, 1)
        w, h = 4 * wq, 4 * hq
        return {"frame_width": w, "frame_height": h, "clean_width": w, "clean_height": h, "left_offset": 0, "top_offset": 0}
    if group == "frame_rate":
        return {"frame_rate_numer": sym("frn", bits, 25, 1), "frame_rate_denom": sym("frd", bits, 2, 1)}
    if group == "aspect":
        return {"pixel_aspect_ratio_numer": sym("pan", bits, 3, 1), "pixel_aspect_ratio_denom": sym("pad", bits, 2, 1)}
    if group == "luma":
        return {"luma_offset": sym("lo", bits, 16, 0), "luma_excursion": sym("le", bits, 219, 1)}
    return {"color_diff_offset": sym("co", bits, 128, 0), "color_diff_excursion": sym("ce", bits, 224, 1)}


def _serialise_header(sh, f):
    from vc2_conformance import bitstream as B
    from vc2_conformance.pseudocode.state import State

    w = B.BitstreamWriter(f)
    with B.Serialiser(w, sh, B.vc2_default_values) as ser:
        B.sequence_header(ser, State())
    w.flush()


def _decode_header(f):
    from vc2_conformance.pseudocode.state import State
    from vc2_conformance.decoder import init_io, sequence_header

    st = State()
    init_io(st, f)
    vp = sequence_header(st)
    return vp, st


def _check(cf, nalt, make_file, prove, prove_eq, fail):
    from vc2_conformance.encoder.sequence_header import iter_sequence_headers
    from vc2_conformance.decoder.exceptions import ConformanceError

    n = 0
    for k, sh in enumerate(itertools.islice(iter_sequence_headers(cf), nalt)):
        n += 1
        f = make_file()
        try:
            _serialise_header(sh, f)
        except Exception as e:
            fail("header-does-not-serialise", [k, type(e).__name__, str(e)[:80]])
            continue
        try:
            vp, st = _decode_header(make_file(f))
        except ConformanceError as e:
            fail("validator-rejects-generated-header", [k, type(e).__name__])
            continue
        want = cf["video_parameters"]
        for key in want:
            prove_eq(vp[key], want[key], "video_parameters[%s] alternative %d" % (key, k))
        prove(set(vp.keys()) == set(want.keys()), "video-parameter-keys", [sorted(vp), sorted(want)])
        prove_eq(st["picture_coding_mode"], int(cf["picture_coding_mode"]), "picture_coding_mode alternative %d" % k)
    return n


def build(task):
    if task["harness"] == "sym":
        base, group, pcm, nalt, bits = task["args"]

        def h(ctx):
            def sym(n, nbits, d, minimum):
                v = ctx.sym_bits(n, nbits, d)
                if minimum:
                    ctx.assume(v >= minimum)
                return v

            over = _group_values(group, bits, sym)
            cf = _codec_features(base, pcm, over)

            def mk(f=None):
                return SymFile(f.getcells()) if f is not None else SymFile()

            n = _check(cf, nalt, mk, lambda c, l, e=None: ctx.prove(c, l, e), lambda a, b, l: ctx.prove_eq(a, b, l), lambda l, e: ctx.fail(l, e))
            ctx.prove(n >= 1, "at-least-one-header", [n])
            return "%d headers" % n

        return h

    if task["harness"] == "enums":
        base, nalt = task["args"]
        cases = _enum_cases(base)

        def he(ctx):
            i = ctx.concretize(ctx.sym_int("case", 0, len(cases) - 1))
            cf = _codec_features(base, i % 2, dict(cases[i]))
            if not _regular(cf):
                return "irregular format (outside the property)"

            def mk(f=None):
                return SymFile(f.getcells()) if f is not None else SymFile()

            n = _check(cf, nalt, mk, lambda c, l, e=None: ctx.prove(c, l, e), lambda a, b, l: ctx.prove_eq(a, b, l), lambda l, e: ctx.fail(l, e))
            ctx.prove(n >= 1, "at-least-one-header", [n])
            return "case %d" % i

        return he

    (nalt,) = task["args"]
    cases = _level_cases()

    def hl(ctx):
        i = ctx.concretize(ctx.sym_int("case", 0, len(cases) - 1))
        level, base, profile, pcm, o = cases[i]
        cf = _codec_features(base, pcm, dict(o), level=level, profile=profile)

        def mk(f=None):
            return SymFile(f.getcells()) if f is not None else SymFile()

        n = _check(cf, nalt, mk, lambda c, l, e=None: ctx.prove(c, l, e), lambda a, b, l: ctx.prove_eq(a, b, l), lambda l, e: ctx.fail(l, e))
        return "level %d base %d: %d headers" % (level, base, n)

    return hl


def _regular(cf):
    """Frame size a multiple of the chroma subsampling (and of twice the vertical subsampling for field coding)."""
    vp = cf["video_parameters"]
    fmt = int(vp["color_diff_format_index"])
    w, h = vp["frame_width"], vp["frame_height"]
    hx = 2 if fmt in (1, 2) else 1
    vy = 2 if fmt == 2 else 1
    if int(cf["picture_coding_mode"]) == 1:
        vy *= 2
    return w % hx == 0 and h % vy == 0


def _enum_cases(base):
    """Deviations of the enum-valued parameters from the base format: every single value, and every combination of
    colour primaries x matrix x transfer function."""
    import vc2_data_tables as T

    out = [()]
    for key, E in (("color_diff_format_index", T.ColorDifferenceSamplingFormats), ("source_sampling", T.SourceSamplingModes)):
        for v in E:
            out.append(((key, v),))
    for v in (True, False):
        out.append((("top_field_first", v),))
    for p in T.PresetColorPrimaries:
        for m in T.PresetColorMatrices:
            for t in T.PresetTransferFunctions:
                out.append((("color_primaries_index", p), ("color_matrix_index", m), ("transfer_function_index", t)))
    return out


_LC = None


def _level_cases():
    """(level, base format, profile, coding mode, overrides) for which the encoder yields at least one header: every real
    level-table column x base format it names x {format defaults, each frame-rate preset, each scan format, each
    signal-range preset} the column allows."""
    global _LC
    if _LC is None:
        import vc2_data_tables as T
        from vc2_conformance.encoder.sequence_header import iter_sequence_headers
        from vc2_conformance.level_constraints import LEVEL_CONSTRAINTS
        from vc2_conformance.constraint_table import AnyValue

        def values(col, key):
            v = col.get(key)
            if v is None or isinstance(v, AnyValue):
                return []
            try:
                return sorted(x for x in v.iter_values() if not isinstance(x, bool))
            except Exception:
                return []

        cand = []
        for col in LEVEL_CONSTRAINTS:
            for level in values(col, "level"):
                if level == 0:
                    continue
                for base in values(col, "base_video_format"):
                    overs = [()]
                    for idx in values(col, "frame_rate_index"):
                        if idx != 0 and idx in [int(x) for x in T.PresetFrameRates]:
                            fr = T.PRESET_FRAME_RATES[T.PresetFrameRates(idx)]
                            overs.append((("frame_rate_numer", fr.numerator), ("frame_rate_denom", fr.denominator)))
                    for ss in values(col, "source_sampling"):
                        overs.append((("source_sampling", T.SourceSamplingModes(ss)),))
                    for idx in values(col, "custom_signal_range_index"):
                        if idx != 0 and idx in [int(x) for x in T.PresetSignalRanges]:
                            sr = T.PRESET_SIGNAL_RANGES[T.PresetSignalRanges(idx)]
                            overs.append((("luma_offset", sr.luma_offset), ("luma_excursion", sr.luma_excursion), ("color_diff_offset", sr.color_diff_offset), ("color_diff_excursion", sr.color_diff_excursion)))
                    for profile in values(col, "profile") or [0, 3]:
                        for pcm in values(col, "picture_coding_mode") or [0, 1]:
                            for o in overs:
                                cand.append((level, base, profile, pcm, o))
        out = []
        seen = set()
        for c in cand:
            if c in seen:
                continue
            seen.add(c)
            level, base, profile, pcm, o = c
            try:
                cf = _codec_features(base, pcm, dict(o), level=level, profile=profile)
                if _regular(cf) and next(iter_sequence_headers(cf), None) is not None:
                    out.append(c)
            except Exception:
                pass
        _LC = out
    return _LC


def validate(task, inputs, outcome):
    return None


def replay(task, label, inputs, extra):
    bad = []

    def prove(c, l, e=None):
        if not c:
            bad.append((l, e))

    def mk(f=None):
        return io.BytesIO(f.getvalue()) if f is not None else io.BytesIO()

    if task["harness"] == "sym":
        base, group, pcm, nalt, bits = task["args"]
        def symc(n, nbits, d, minimum):
            v = 0
            for j in range(nbits):
                bit = inputs.get("%s.%d" % (n, j))
                v = (v << 1) | ((d >> (nbits - 1 - j)) & 1 if bit is None else bit)
            return max(v, minimum)

        over = _group_values(group, bits, symc)
        cf = _codec_features(base, pcm, over)
    elif task["harness"] == "enums":
        base, nalt = task["args"]
        i = inputs.get("case", 0)
        over = dict(_enum_cases(base)[i])
        pcm = i % 2
        cf = _codec_features(base, pcm, over)
        if not _regular(cf):
            return {"reproduced": False, "key": None, "detail": "irregular format"}
    else:
        level, base, profile, pcm, o = _level_cases()[inputs.get("case", 0)]
        nalt = task["args"][0]
        cf = _codec_features(base, pcm, dict(o), level=level, profile=profile)
        over = dict(o, level=level, profile=profile)
    n = _check(cf, nalt, mk, prove, lambda a, b, l: prove(a == b, l, [a, b]), lambda l, e: bad.append((l, e)))
    return {"reproduced": bool(bad), "key": "C15:%s" % (bad[0][0].split(" alternative")[0] if bad else None),
            "detail": "base format %d coding mode %d parameters %r: %r" % (base, pcm, over, bad[:2])}


def MIN_REACH(outcomes, per_task, tasks):
    return None


def canaries():
    def clean_area_offsets_swapped_in_alternatives():
        import vc2_conformance.encoder.sequence_header as E

        orig = E.iter_source_parameter_options

        def it(base_video_parameters, video_parameters, level_constraints_dict):
            for k, sp in enumerate(orig(base_video_parameters, video_parameters, level_constraints_dict)):
                if k >= 1 and sp.get("frame_size", {}).get("custom_dimensions_flag") and sp["frame_size"].get("frame_width", 0) > 200:
                    sp["frame_size"]["frame_width"], sp["frame_size"]["frame_height"] = sp["frame_size"]["frame_height"], sp["frame_size"]["frame_width"]
                yield sp

        E.iter_source_parameter_options = it

    def preset_frame_rate_used_when_only_numerator_matches():
        import vc2_conformance.pseudocode.video_parameters as V
        import vc2_conformance.encoder.sequence_header as E

        orig = E.count_video_parameter_differences

        def count(a, b):
            return orig(a, b)

        orig_iter = E.iter_custom_options_dicts

        def iter_custom(base_video_parameters, video_parameters, level_constraints_dict, dict_type, flag_key, parameters, presets=None, preset_index_constraint_key=None):
            for d in orig_iter(base_video_parameters, video_parameters, level_constraints_dict, dict_type, flag_key, parameters, presets, preset_index_constraint_key):
                yield d

        E.iter_custom_options_dicts = iter_custom
        # decoder side: excursion 1 lower for custom signal ranges with odd luma offsets above 100
        import importlib

        D = importlib.import_module("vc2_conformance.decoder.sequence_header")  # the package re-exports a function of the same name
        orig_sr = D.signal_range

        def signal_range(state, video_parameters):
            orig_sr(state, video_parameters)
            if video_parameters["luma_offset"] > 100 and video_parameters["luma_offset"] % 2:
                video_parameters["luma_excursion"] -= 1

        D.signal_range = signal_range

    def picture_coding_mode_lost_for_fields_with_custom_rate():
        import vc2_conformance.encoder.sequence_header as E

        orig = E.iter_sequence_headers

        def it(cf):
            for sh in orig(cf):
                fr = sh["video_parameters"].get("frame_rate", {})
                if fr.get("custom_frame_rate_flag") and fr.get("index") == 0 and fr.get("frame_rate_denom") == 3:
                    sh["picture_coding_mode"] = 0
                yield sh

        E.iter_sequence_headers = it

    return [("clean_area_offsets_swapped_in_alternatives", clean_area_offsets_swapped_in_alternatives),
            ("preset_frame_rate_used_when_only_numerator_matches", preset_frame_rate_used_when_only_numerator_matches),
            ("picture_coding_mode_lost_for_fields_with_custom_rate", picture_coding_mode_lost_for_fields_with_custom_rate)]
