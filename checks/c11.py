"""C11 -- forward and inverse wavelet transforms reconstruct exactly; subband shapes match slice geometry.

Real code: picture_encoding.{dwt_pad_addition,dwt,h_analysis,vh_analysis,oned_analysis,
ANALYSIS_LIFTING_FUNCTION_TYPES}, picture_decoding.{idwt,h_synthesis,vh_synthesis,oned_synthesis,
lift1..4,filter_bit_shift,idwt_pad_removal}, slice_sizes.{subband_width,subband_height}.

Symbolic: every sample of the component (unbounded z3 Int).  Control flow does not depend on sample
values, so there is one path per (filter pair, depths, size); configurations are picked by a symbolic
selector (solver-driven enumeration) and the round trip is an obligation per sample.
"""
from __future__ import annotations

import random

PROPERTY_ID = "C11"
LEVEL = "model_checking"
RULE = (
    "configuration = (wavelet_index, wavelet_index_ho, dwt_depth, dwt_depth_ho, width, height, component); one path per "
    "configuration; per path: every sample of idwt_pad_removal(idwt(dwt(dwt_pad_addition(p)))) equals p for arbitrary integer "
    "samples (z3 Int), and every subband array returned by dwt has subband_height x subband_width entries"
)
BOUNDS = {
    "quick": "all 49 filter pairs x depths with dwt_depth+dwt_depth_ho <= 3 x 6 seeded sizes from 1..6 x 1..6; samples unbounded integers",
    "thorough": "all 49 filter pairs x depths with dwt_depth+dwt_depth_ho <= 4 x all sizes 1..12 x 1..10 (plus 16x12); samples unbounded integers",
}
OUTSIDE = "picture sizes and depths above the bound; lifting variants that remain mutually inverse do not violate the property"
ASSUMPTIONS = [
    "obligations closed by the linear normal form (hash-consed floor-division atoms cancel between analysis and synthesis) rely on the rewrite schemas validated in symx.selfcheck",
]
STUBS = ["abs/min/max/range shadowed in vc2_conformance module namespaces (delegate to builtins on concrete values)"]
BUDGET_S = {"quick": 420, "thorough": 2400}
IFCONV = False


def _depths(maxsum):
    return [(d, dh) for d in range(0, 5) for dh in range(0, 5) if d + dh <= maxsum]


def tasks(tier, seed):
    rnd = random.Random(seed)
    out = []
    if tier == "quick":
        depths = _depths(3)
        nsz = 6
        allsz = [(w, h) for w in range(1, 7) for h in range(1, 7)]
    else:
        depths = _depths(4)
        allsz = [(w, h) for w in range(1, 13) for h in range(1, 11)] + [(16, 12)]
        nsz = None
    for wi in range(7):
        for wh in range(7):
            for (d, dh) in depths:
                if d == 0 and dh == 0 and (wi, wh) != (0, 0):
                    continue
                szs = allsz if nsz is None else rnd.sample(allsz, nsz)
                B = 24
                for i in range(0, len(szs), B):
                    out.append({"id": "w%d/%d d%d/%d #%d" % (wi, wh, d, dh, i // B), "harness": "roundtrip",
                                "args": (wi, wh, d, dh, szs[i:i + B], seed)})
    return out


def _state(wi, wh, d, dh, w, h):
    return {
        "wavelet_index": wi, "wavelet_index_ho": wh, "dwt_depth": d, "dwt_depth_ho": dh,
        "luma_width": w, "luma_height": h, "color_diff_width": max(1, w // 2), "color_diff_height": max(1, (h + 1) // 2),
    }


def _comp_dims(state, c):
    return (state["luma_width"], state["luma_height"]) if c == "Y" else (state["color_diff_width"], state["color_diff_height"])


def _roundtrip(state, pic, c, PE, PD, SS):
    import copy

    padded = [list(r) for r in pic]
    PE.dwt_pad_addition(state, padded, c)
    coeffs = PE.dwt(state, padded)
    shapes = []
    for level, bands in coeffs.items():
        for orient, arr in bands.items():
            shapes.append((level, orient, len(arr), len(arr[0]) if arr else 0,
                           SS.subband_height(state, level, c), SS.subband_width(state, level, c)))
    rec = PD.idwt(state, coeffs)
    PD.idwt_pad_removal(state, rec, c)
    return rec, shapes, coeffs


def build(task):
    from vc2_conformance.pseudocode import picture_encoding as PE, picture_decoding as PD, slice_sizes as SS

    wi, wh, d, dh, szs, seed = task["args"]
    cases = [(w, h, c) for (w, h) in szs for c in ("Y", "C1")]

    def h(ctx):
        sel = ctx.sym_int("sel", 0, len(cases) - 1)
        i = ctx.concretize(sel)
        w0, h0, c = cases[i]
        state = _state(wi, wh, d, dh, w0, h0)
        cw, ch = _comp_dims(state, c)
        rnd = random.Random((seed, i).__hash__())
        pic = [[ctx.sym_int("p%d_%d" % (y, x), default=rnd.randint(-1000, 1000)) for x in range(cw)] for y in range(ch)]
        rec, shapes, coeffs = _roundtrip(state, pic, c, PE, PD, SS)
        expect_levels = {0} | set(range(1, d + dh + 1))
        ctx.prove(set(coeffs.keys()) == expect_levels, "levels", [w0, h0, c])
        for (level, orient, hh, ww, eh, ew) in shapes:
            ctx.prove(hh == eh and ww == ew, "subband-shape", [w0, h0, c, level, orient, hh, ww, eh, ew])
        ctx.prove(len(rec) == ch and all(len(r) == cw for r in rec), "output-shape", [w0, h0, c])
        if len(rec) == ch and all(len(r) == cw for r in rec):
            for y in range(ch):
                for x in range(cw):
                    ctx.prove_eq(rec[y][x], pic[y][x], "roundtrip[%d][%d] %dx%d %s" % (y, x, w0, h0, c))
        return "%dx%d %s" % (w0, h0, c)

    return h


def validate(task, inputs, outcome):
    """Run the plain code on the path's model: the concrete round trip must agree with the path's claim."""
    r = replay(task, "roundtrip", inputs, None)
    if r["reproduced"]:
        return None  # a real violation: reported through the obligation, not as an engine mismatch
    wi, wh, d, dh, szs, seed = task["args"]
    cases = [(w, h, c) for (w, h) in szs for c in ("Y", "C1")]
    w0, h0, c = cases[inputs["sel"]]
    if outcome != "%dx%d %s" % (w0, h0, c):
        return "selector mismatch"
    return None


def replay(task, label, inputs, extra):
    from vc2_conformance.pseudocode import picture_encoding as PE, picture_decoding as PD, slice_sizes as SS

    wi, wh, d, dh, szs, seed = task["args"]
    cases = [(w, h, c) for (w, h) in szs for c in ("Y", "C1")]
    w0, h0, c = cases[inputs["sel"]]
    state = _state(wi, wh, d, dh, w0, h0)
    cw, ch = _comp_dims(state, c)
    pic = [[inputs.get("p%d_%d" % (y, x), 0) for x in range(cw)] for y in range(ch)]
    rec, shapes, coeffs = _roundtrip(state, pic, c, PE, PD, SS)
    bad = None
    if any((hh, ww) != (eh, ew) for (_, _, hh, ww, eh, ew) in shapes) or set(coeffs) != ({0} | set(range(1, d + dh + 1))):
        bad = "subband-shape"
    elif rec != pic:
        bad = "roundtrip"
    return {"reproduced": bad is not None, "key": "C11:%s" % bad,
            "detail": "wavelet %d/%d depth %d/%d %dx%d %s picture=%r reconstructed=%r" % (wi, wh, d, dh, w0, h0, c, pic, rec)}


def canaries():
    def stages_not_reversed():
        from vc2_conformance.pseudocode import picture_encoding as PE
        from vc2_data_tables import LIFTING_FILTERS

        def oned_analysis(A, filter_index):
            fp = LIFTING_FILTERS[filter_index]
            stages = fp.stages if filter_index == 4 else reversed(fp.stages)
            for stage in stages:
                PE.ANALYSIS_LIFTING_FUNCTION_TYPES[stage.lift_type](A, stage.L, stage.D, stage.taps, stage.S)

        PE.oned_analysis = oned_analysis

    def shift_off_by_one():
        from vc2_conformance.pseudocode import picture_decoding as PD

        orig = PD.h_synthesis

        def h_synthesis(state, L, H):
            out = orig(state, L, H)
            if state["wavelet_index_ho"] == 1 and len(out[0]) >= 4:
                out[0][3] = out[0][3] + (out[0][2] & 1) * 0 + ((out[0][1] + 1) >> 9)
            return out

        PD.h_synthesis = h_synthesis
        import vc2_conformance.pseudocode.picture_decoding as m
        # idwt looks h_synthesis up in its module globals
        m.h_synthesis = h_synthesis

    def edge_clamp_wrong():
        from vc2_conformance.pseudocode import picture_decoding as PD
        from vc2_data_tables import LiftingFilterTypes

        def lift3(A, L, D, taps, S):
            for n in range(len(A) // 2):
                sum = 0
                for i in range(D, L + D):
                    pos = 2 * (n + i)
                    pos = min(pos, len(A) - 1 if len(A) == 6 else len(A) - 2)
                    pos = max(pos, 0)
                    sum += taps[i - D] * A[pos]
                if S > 0:
                    sum += 1 << (S - 1)
                A[2 * n + 1] += sum >> S

        PD.lift3 = lift3
        PD.SYNTHESIS_LIFTING_FUNCTION_TYPES[LiftingFilterTypes(3)] = lift3

    def pad_width_uses_height_depth():
        from vc2_conformance.pseudocode import slice_sizes as SS

        orig = SS.subband_width

        def subband_width(state, level, comp):
            r = orig(state, level, comp)
            if state["dwt_depth_ho"] == 2 and level == 1 and comp == "C1":
                return r + 1
            return r

        SS.subband_width = subband_width
        import vc2_conformance.pseudocode.picture_encoding as PE
        PE.subband_width = subband_width

    return [("stages_not_reversed", stages_not_reversed), ("shift_off_by_one", shift_off_by_one),
            ("edge_clamp_wrong", edge_clamp_wrong), ("pad_width_uses_height_depth", pad_width_uses_height_depth)]
