"""C25 -- the validator command reports verdicts and decoded pictures faithfully.

Real code: vc2_conformance.scripts.vc2_bitstream_validator (main, parse_args, BitstreamValidator.run, _output_picture,
_print_conformance_error, _print_error, status line) on top of the whole decoder package.

Symbolic: every bit of chosen byte regions of committed fixture streams and the truncation point (as C02).  The command's real
main() is executed on the symbolic file; on every path its return code, the arguments of every file-format write() and
its output are compared with a direct run of the decoder on the same symbolic file.  Each path's model is then written
to a real file and the real command is run on it: same return code, files on disk = numbered pairs whose contents,
read back with the real file_format.read, are the decoder's pictures.
"""
from __future__ import annotations

import random
import re

from lib import dec, cmds
from symx.symfile import SymFile
from symx.core import cv_of, is_sym

PROPERTY_ID = "C25"
LEVEL = "model_checking"
RULE = (
    "task = (fixture stream, symbolic byte region); every path of the real command main() over all values of the region's bits: "
    "return code 0 iff a direct decoder run accepts and 2 iff it raises a ConformanceError, never any other code; the pictures "
    "handed to write() are the decoder's pictures in decode order with their video parameters and coding mode under file names "
    "pattern % 0, 1, ...; with code 2 stdout carries 'Conformance error at bit offset N' and stderr the error line; each path's "
    "model is then run through the real command on real files under one of 6 output patterns (same code, numbered raw+json pairs named by the documented extension rule, contents read back equal the decoder's output)"
)
BOUNDS = {
    "quick": "8 fixtures; regions: each parse-info block (9 bytes after the prefix), 2 seeded 1-byte windows per picture/fragment unit, every second byte of the sequence header of hq_min, the 4 prefix bytes, truncation anywhere; declared sizes <= dec.RESOURCE_BOUNDS",
    "thorough": "all fixtures; the C02 quick region set (2 seeded windows per picture/fragment unit, every window over the sequence header of 2 fixtures), windows 2 bytes wide on 4 fixtures and 1 byte elsewhere",
}
OUTSIDE = (
    "regions larger than the bound; streams declaring sizes above the resource bounds; text rendering of symbolic values is "
    "executed for each path's representative value only (ENGINE_OPTS format_shadow), so a formatting failure that depends on a "
    "value without any branch of the Python code depending on it is outside the claim; command-line options other than -o; "
    "file-system failures"
)
ASSUMPTIONS = [
    "open(), os.path.getsize and file_format.write are replaced in the command module's namespace on the symbolic side (SymFile, its size, a recorder); the plain side uses real files",
    "assert_level_constraint is wrapped in-process to abandon paths declaring sizes above dec.RESOURCE_BOUNDS",
    "levels 1, 64 and 66 use a relaxed value table admitting the 8x4 test format (lib.levels)",
]
STUBS = ["SymFile behind open()", "os.path.getsize", "file_format.write recorder (symbolic side only)", "bytearray stand-in in vc2_conformance.decoder.io", "resource-bound wrapper around assert_level_constraint"]
BUDGET_S = {"quick": 900, "thorough": 3400}
ENGINE_OPTS = {"max_decisions": 6000, "format_shadow": True}
REPLAYS_PER_LABEL = 2
PATTERN = "pic_%d.raw"

WIDE_FIXTURES = ["hq_min", "ld_min", "hq_fields", "hq_frag"]  # thorough: 2-byte windows inside data units on these, 1-byte elsewhere
QUICK_FIXTURES = ["hq_min", "ld_min", "hq_frag", "ld_frag", "hq_fields", "hq_padaux_payload", "two_sequences", "neg_pic_then_fragslice"]


def precheck():
    return dec.verify_fixtures(PROPERTY_ID)


def tasks(tier, seed):
    from checks import c02

    rnd = random.Random(seed)
    idx = dec.fixture_index()
    names = sorted(idx) if tier == "thorough" else QUICK_FIXTURES
    out = []
    for name in names:
        meta = idx[name]
        data, _ = dec.fixture(name)
        for label, regions in c02._regions_for(name, meta, data, "quick", rnd):  # C02's thorough region set is beyond this check's budget (two decoder runs per path)
            if "+" in label:
                continue
            if label.startswith("u") and (tier == "quick" or name not in WIDE_FIXTURES):
                if name == "hq_min" and label.startswith("u0@") and int(label.split("@")[1]) % 2:
                    continue
                regions = [(s, 1) for (s, n) in regions]  # quick: one-byte windows inside data units
            out.append({"id": "%s/%s" % (name, label), "harness": "region", "args": (name, regions)})
        out.append({"id": "%s/truncate" % name, "harness": "truncate", "args": (name,)})
    return out


def _same(ctx, a, b, label):
    """Structural equality of two decoder outputs (nested dict/list of ints or symbolic ints)."""
    if isinstance(a, dict) and isinstance(b, dict):
        if sorted(map(str, a)) != sorted(map(str, b)):
            ctx.fail(label, ["keys", sorted(map(str, a)), sorted(map(str, b))])
            return
        for k in a:
            _same(ctx, a[k], b[k], label)
    elif isinstance(a, (list, tuple)) and isinstance(b, (list, tuple)):
        if len(a) != len(b):
            ctx.fail(label, ["length", len(a), len(b)])
            return
        for x, y in zip(a, b):
            _same(ctx, x, y, label)
    elif is_sym(a) or is_sym(b):
        ctx.prove_eq(a, b, label)
    elif a != b:
        ctx.fail(label, [repr(a)[:80], repr(b)[:80]])


def _error_offset(exc, st):
    """Where a ConformanceError is located: the offset it names, else the decoder's position (bits)."""
    from vc2_conformance.bitstream.io import to_bit_offset
    from vc2_conformance.decoder.io import tell

    off = exc.offending_offset()
    return to_bit_offset(*tell(st)) if off is None else off


# output file name patterns tried on the plain side (rotated per path); all have a printf field in the last component
OUT_PATTERNS = ["out_%d.raw", "run.1/picture_%d", "pic_%d", "a.b/c.d_%d.raw", ".hidden_%d.raw", "x/.y_%d"]


def _expected_pair(name):
    """Documented naming: the extension of the given name (if any) is replaced by .raw / .json."""
    import os

    head, tail = os.path.split(name)
    if "." in tail[1:]:
        tail = tail[: tail.rindex(".")]
    base = os.path.join(head, tail)
    return base + ".raw", base + ".json"


def _snapshot(x):
    if isinstance(x, dict):
        return {k: _snapshot(v) for k, v in x.items()}
    if isinstance(x, (list, tuple)):
        return [_snapshot(v) for v in x]
    return x


def _judge(ctx, make_file, size):
    direct = []
    cls, st, exc = dec.run_decoder(make_file(), on_picture=lambda p, vp, pcm: direct.append((_snapshot(p), _snapshot(vp), pcm)))
    try:
        rc, rec, out, err = cmds.run_validator(make_file(), size, PATTERN)
    except Exception as e:  # the command itself crashed (engine aborts are BaseException and pass through)
        ctx.fail("exit-status-not-0-or-2", ["raised", type(e).__name__, str(e)[:200]])
        return ["raised", list(cls)[:2]]
    if rc not in (0, 2):
        ctx.fail("exit-status-not-0-or-2", [rc, list(cls), err[-300:]])
        return [rc, list(cls)[:2]]
    if (rc == 0) != (cls[0] == "ok"):
        ctx.fail("exit-status-disagrees-with-decoder", [rc, list(cls)])
    names = [r[0] for r in rec]
    if names != [PATTERN % i for i in range(len(direct))]:
        ctx.fail("picture-files-not-numbered-from-0-in-decode-order", [names, len(direct)])
    else:
        for (fn, p, vp, pcm), (dp, dvp, dpcm) in zip(rec, direct):
            _same(ctx, p, dp, "written-picture-differs-from-decoder-output")
            _same(ctx, vp, dvp, "written-video-parameters-differ")
            _same(ctx, pcm, dpcm, "written-picture-coding-mode-differs")
    if rc == 2:
        m = re.search(r"Conformance error at bit offset (\d+)\n", out)
        if not m or "non-conformant bitstream" not in err:
            ctx.fail("code-2-without-located-explanation", [out[:200], err[:200]])
        elif exc is not None and int(m.group(1)) != cv_of(_error_offset(exc, st)):
            ctx.fail("explanation-located-at-wrong-offset", [int(m.group(1)), cv_of(_error_offset(exc, st)), type(exc).__name__])
    elif "No errors found in bitstream" not in out:
        ctx.fail("code-0-without-verdict-line", [out[:200]])
    return [rc, list(cls)[:2], len(rec)]


def build(task):
    from lib.levels import relax_levels

    relax_levels()
    dec.install_resource_bounds()
    name = task["args"][0]
    data, meta = dec.fixture(name)

    if task["harness"] == "region":
        regions = task["args"][1]

        def h(ctx):
            cells = dec.sym_region(ctx, data, regions)
            return _judge(ctx, lambda: SymFile(cells), len(cells))

        return h

    def ht(ctx):
        cut = ctx.sym_int("cut", 0, len(data), default=len(data))
        return _judge(ctx, lambda: SymFile(list(data), limit=cut), ctx.concretize(cut))

    return ht


def _concrete(task, inputs):
    name = task["args"][0]
    data, meta = dec.fixture(name)
    if task["harness"] == "truncate":
        return data[: inputs.get("cut", len(data))]
    return dec.bytes_from_inputs(data, inputs)


def _plain(task, inputs):
    """Real command on real files.  Returns (bytes, rc, problem label or None, detail)."""
    import io
    import os
    from lib.levels import relax_levels
    from vc2_conformance.file_format import read

    relax_levels()
    b = _concrete(task, inputs)
    direct = []
    cls, st, exc = dec.run_decoder(io.BytesIO(b), on_picture=lambda p, vp, pcm: direct.append((_snapshot(p), _snapshot(vp), pcm)))
    import hashlib

    which = int(hashlib.sha1(b).hexdigest(), 16) % len(OUT_PATTERNS)
    with cmds.scratch_dir() as d:
        fn = os.path.join(d, "stream.vc2")
        with open(fn, "wb") as f:
            f.write(b)
        outdir = os.path.join(d, "o")
        pat = os.path.join(outdir, OUT_PATTERNS[which])
        os.makedirs(os.path.dirname(pat))
        rc, out, err = cmds.real_main("vc2_conformance.scripts.vc2_bitstream_validator", [fn, "-o", pat])
        files = sorted(os.path.relpath(os.path.join(r, x), outdir) for r, _, fs in os.walk(outdir) for x in fs)
        if rc not in (0, 2):
            return b, rc, "exit-status-not-0-or-2", "exit %r decoder %r stderr %s" % (rc, cls, err[-300:])
        if (rc == 0) != (cls[0] == "ok"):
            return b, rc, "exit-status-disagrees-with-decoder", "exit %r decoder %r" % (rc, cls)
        want = sorted(os.path.relpath(x, outdir) for i in range(len(direct)) for x in _expected_pair(pat % i))
        if files != want:
            return b, rc, "picture-files-not-numbered-from-0-in-decode-order", "pattern %r: files %r, expected %r" % (OUT_PATTERNS[which], files, want)
        for i, (dp, dvp, dpcm) in enumerate(direct):
            p, vp, pcm = read(_expected_pair(pat % i)[0])
            if p != dp:
                return b, rc, "written-picture-differs-from-decoder-output", "picture %d: %r != %r" % (i, str(p)[:120], str(dp)[:120])
            if dict(vp) != dict(dvp):
                return b, rc, "written-video-parameters-differ", "picture %d: %r != %r" % (i, vp, dvp)
            if pcm != dpcm:
                return b, rc, "written-picture-coding-mode-differs", "picture %d: %r != %r" % (i, pcm, dpcm)
        if rc == 2:
            m = re.search(r"Conformance error at bit offset (\d+)\n", out)
            if not m or "non-conformant bitstream" not in err:
                return b, rc, "code-2-without-located-explanation", out[:200] + " / " + err[:200]
            if int(m.group(1)) != _error_offset(exc, st):
                return b, rc, "explanation-located-at-wrong-offset", "reported bit offset %s, the %s is at %s" % (m.group(1), type(exc).__name__, _error_offset(exc, st))
        if rc == 0 and "No errors found in bitstream" not in out:
            return b, rc, "code-0-without-verdict-line", out[:200]
    return b, rc, None, ""


def validate(task, inputs, outcome):
    b, rc, label, detail = _plain(task, inputs)
    if label:
        return {"label": label, "key": "C25:%s" % label, "detail": "%s on stream %s" % (detail, b.hex())}
    if rc != outcome[0]:
        return "symbolic path predicted exit %r, real command gives %r on %s" % (outcome[0], rc, b.hex())
    return None


def replay(task, label, inputs, extra):
    b, rc, lab, detail = _plain(task, inputs)
    return {"reproduced": lab is not None, "key": "C25:%s" % lab, "detail": "%s on stream %s" % (detail, b.hex())}


def MIN_REACH(outcomes, per_task, tasks):
    import json

    rcs = Counter0()
    for k, n in outcomes.items():
        try:
            o = json.loads(k)
            rcs[(o[0], o[2] if len(o) > 2 else 0)] += n
        except Exception:
            pass
    if not any(rc == 0 and n >= 1 for (rc, n) in rcs):
        return "no accepting path with at least one written picture was reached"
    if not any(rc == 2 for (rc, n) in rcs):
        return "no rejecting path was reached"
    if not any(rc == 2 and n >= 1 for (rc, n) in rcs):
        return "no rejecting path after a written picture was reached"
    empty = [t["id"] for t in tasks if per_task.get(t["id"], 0) == 0]
    if empty:
        return "tasks without any explored path: %r" % empty[:5]
    return None


def Counter0():
    from collections import Counter

    return Counter()


def canaries():
    def numbering_starts_at_one():
        import vc2_conformance.scripts.vc2_bitstream_validator as V

        def _output_picture(self, picture, video_parameters, picture_coding_mode):
            self._next_picture_index += 1
            V.write(picture, video_parameters, picture_coding_mode, self._output_filename % (self._next_picture_index,))

        V.BitstreamValidator._output_picture = _output_picture

    def second_field_written_over_first():
        import vc2_conformance.scripts.vc2_bitstream_validator as V

        def _output_picture(self, picture, video_parameters, picture_coding_mode):
            filename = self._output_filename % (self._next_picture_index,)
            if not (picture_coding_mode == 1 and picture["pic_num"] % 2 == 0):
                self._next_picture_index += 1
            V.write(picture, video_parameters, picture_coding_mode, filename)

        V.BitstreamValidator._output_picture = _output_picture

    def offset_missing_when_error_has_none():
        import vc2_conformance.scripts.vc2_bitstream_validator as V

        orig = V.BitstreamValidator._print_conformance_error

        def _print_conformance_error(self, exception, tb):
            if exception.offending_offset() is None and V.tell(self._state)[1] != 7:
                raise KeyError("offset")
            return orig(self, exception, tb)

        V.BitstreamValidator._print_conformance_error = _print_conformance_error

    def trailing_bytes_after_end_reported_as_success():
        import vc2_conformance.scripts.vc2_bitstream_validator as V
        orig = V.parse_stream

        def parse_stream(state):
            try:
                return orig(state)
            except V.ConformanceError as e:
                if type(e).__name__ == "BadParseInfoPrefix" and V.tell(state)[0] > 40:
                    return None
                raise

        V.parse_stream = parse_stream

    return [("numbering_starts_at_one", numbering_starts_at_one), ("second_field_written_over_first", second_field_written_over_first),
            ("offset_missing_when_error_has_none", offset_missing_when_error_has_none),
            ("trailing_bytes_after_end_reported_as_success", trailing_bytes_after_end_reported_as_success)]
