"""C01 -- the validator accepts exactly the structurally conformant data-unit histories.

Real code: the whole decoder via parse_stream.  Streams are assembled from data-unit blocks cut from
the committed fixtures (lib.blocks); the order of blocks is enumerated, and in every block the
next/previous parse offsets, picture numbers and fragment x/y offsets are fully symbolic.

Oracle: lib.blocks.reference -- an independent predicate written from the rules in the property
statement (hand-written automata for the level patterns; no use of symbol_re).  Per path of the real
decoder: accepted <=> reference holds (z3 obligation), and every rejection is a ConformanceError.
"""
from __future__ import annotations

import io
import itertools
import random

from lib import blocks, dec
from symx.core import is_sym, SymBool
from symx.symfile import SymFile

PROPERTY_ID = "C01"
LEVEL = "model_checking"
RULE = (
    "history = first sequence header + up to N further data units drawn from a library of 22 blocks (+ optional end of sequence); "
    "orders are enumerated (curated list + seeded sample / all), the structural fields of every unit (32-bit next and previous parse "
    "offsets, 32-bit picture numbers, 16-bit fragment offsets) are symbolic; per decoder path z3 proves verdict <=> reference predicate"
)
BOUNDS = {
    "quick": "<= 3 data units after the first header (+ end of sequence); curated interaction orders up to 6 units; 700 seeded orders of the full product",
    "thorough": "<= 4 data units after the first header (+ end of sequence); curated orders; 12000 seeded orders of the full product (fraction reported)",
}
OUTSIDE = "payload-internal rules (C02/C08/C09); padding/auxiliary next_parse_offset (length-determining) is concrete; histories longer than the bound"
ASSUMPTIONS = [
    "blocks are cut from committed fixtures which the plain decoder accepts (re-checked on every run)",
    "levels 1 and 66 use a relaxed value table admitting the 8x4 test format (lib.levels); ordering patterns are the repository's",
    "the reference predicate (lib/blocks.py) is this framework's reading of the property statement",
]
STUBS = ["SymFile", "bytearray stand-in in vc2_conformance.decoder.io"]
BUDGET_S = {"quick": 600, "thorough": 3000}
ENGINE_OPTS = {"max_decisions": 6000}
REPLAYS_PER_LABEL = 2

HEADERS = ["SH", "SH_V3", "SH_LD", "SH_LD_V3", "SH_FIELDS", "SH_L1", "SH_L1_V3", "SH_L66"]
BODY = ["SH", "SH_B", "PIC", "PIC_LD", "F0", "FS0", "FS1", "FS01", "F0_LD", "FS0_LD", "FS1_LD", "PADU", "PAD3", "AUXU"]

CURATED = [
    ["SH", "PIC", "EOS"],
    ["SH", "PIC", "PIC", "EOS"],
    ["SH", "PIC", "SH", "PIC", "EOS"],
    ["SH", "PIC", "SH_B", "PIC", "EOS"],
    ["SH_V3", "F0", "FS0", "FS1", "EOS"],
    ["SH_V3", "F0", "FS01", "EOS"],
    ["SH_V3", "F0", "FS0", "FS1", "F0", "FS01", "EOS"],
    ["SH_V3", "FS0", "FS1", "EOS"],                       # slices with no initial fragment
    ["SH_V3", "PIC", "FS0", "EOS"],                       # slice fragment after a plain picture
    ["SH_V3", "F0", "FS0", "PIC", "FS1", "EOS"],          # picture interleaved
    ["SH_V3", "F0", "FS0", "F0", "FS0", "FS1", "EOS"],    # restarted
    ["SH_V3", "F0", "FS0", "EOS"],                        # incomplete
    ["SH_V3", "F0", "FS1", "FS0", "EOS"],                 # not raster order
    ["SH_V3", "F0", "FS0", "FS1", "FS1", "EOS"],          # too many
    ["SH_V3", "F0", "FS01", "FS1", "EOS"],
    ["SH_V3", "PIC", "F0", "FS01", "EOS"],                # pictures mixed with fragments, level 0
    ["SH_L1_V3", "PIC", "F0", "FS01", "EOS"],             # pictures mixed with fragments, level 1
    ["SH_L1_V3", "F0", "FS01", "PIC", "EOS"],
    ["SH_L1_V3", "F0", "FS01", "EOS"],
    ["SH_L1", "PIC", "PADU", "PIC", "EOS"],
    ["SH_L66", "PIC", "SH_L66", "PIC", "EOS"],
    ["SH_L66", "PIC", "PIC", "EOS"],
    ["SH_L66", "PIC", "PADU", "EOS"],
    ["SH_L66", "EOS"],
    ["SH", "EOS"],
    ["SH_V3", "EOS"],                                     # version 3 allowed for empty sequence
    ["SH_V3", "PIC", "EOS"],                              # version too high
    ["SH", "F0", "FS01", "EOS"],                          # fragments need version 3
    ["SH", "PIC_LD", "EOS"],                              # LD picture in HQ profile
    ["SH_LD", "PIC_LD", "PIC_LD", "EOS"],
    ["SH_LD", "PIC", "EOS"],
    ["SH_LD_V3", "F0_LD", "FS0_LD", "FS1_LD", "EOS"],
    ["SH_FIELDS", "PIC", "PIC", "EOS"],
    ["SH_FIELDS", "PIC", "EOS"],                          # odd number of fields
    ["SH_FIELDS", "PIC", "PIC", "PIC", "PIC", "EOS"],
    ["SH_FIELDS", "PIC", "PIC", "PIC", "EOS"],
    ["SH_FIELDS", "PIC", "PADU", "PIC", "SH_FIELDS", "PIC", "EOS"],
    ["SH", "PADU", "AUXU", "PIC", "PAD3", "EOS"],
    ["SH", "PIC"],                                        # no end of sequence
    ["PIC", "EOS"],                                       # no sequence header
    ["SH", "PIC", "EOS", "SH_LD", "PIC_LD", "EOS"],       # two sequences
    ["SH", "PIC", "EOS", "PIC", "EOS"],
    ["SH_V3", "F0", "FS0", "EOS", "SH_V3", "FS1", "EOS"],  # fragmented picture across sequences
]


def _orders(tier, seed):
    rnd = random.Random(seed)
    n = 3 if tier == "quick" else 4
    want = 700 if tier == "quick" else 12000
    out = [blocks.normalise_order(o) for o in CURATED]
    seen = set(tuple(o) for o in out)
    total = sum(len(HEADERS) * len(BODY) ** k * 2 for k in range(0, n + 1))
    tries = 0
    while len(out) < len(CURATED) + want and tries < want * 20:
        tries += 1
        k = rnd.randint(1, n)
        o = [rnd.choice(HEADERS)] + [rnd.choice(BODY) for _ in range(k)]
        # bias towards plausible continuations so that deep rules are reached
        if rnd.random() < 0.85:
            o.append("EOS")
        o = blocks.normalise_order(o)
        t = tuple(o)
        if t not in seen:
            seen.add(t)
            out.append(o)
    return out, total


def precheck():
    return dec.verify_fixtures(PROPERTY_ID)


def tasks(tier, seed):
    orders, total = _orders(tier, seed)
    out = []
    B = 4
    for i in range(0, len(orders), B):
        out.append({"id": "orders#%d" % (i // B), "harness": "orders", "args": orders[i:i + B], "total_orders_in_bound": total})
    return out


_COVER = {}


def extra_coverage():
    return {}


def _run(order, ctx):
    def field(i, name, nbits, default):
        return ctx.sym_bits("u%d.%s" % (i, name), nbits, default)

    cells, units = blocks.assemble(order, field)
    cls, st, exc = dec.run_decoder(SymFile(cells))
    return cells, units, cls


def build(task):
    from lib.levels import relax_levels

    relax_levels()
    orders = task["args"]

    def h(ctx):
        k = ctx.concretize(ctx.sym_int("order", 0, len(orders) - 1))
        order = orders[k]
        cells, units, cls = _run(order, ctx)
        verdict, rules = blocks.reference(units)
        if cls[0] == "EXC":
            ctx.fail("unexpected-exception", [order, list(cls)])
            return [k, "EXC"]
        if cls[0] == "ok":
            ctx.prove(verdict, "accepted-but-reference-rejects", [order])
        else:
            nv = (not verdict) if isinstance(verdict, bool) else verdict.negate()
            ctx.prove(nv, "rejected-but-reference-accepts", [order, list(cls)])
        return [k, cls[0], cls[1] if len(cls) > 1 else None]

    return h


def _concrete(task, inputs):
    order = task["args"][inputs.get("order", 0)]

    def field(i, name, nbits, default):
        v = 0
        for j in range(nbits):
            key = "u%d.%s.%d" % (i, name, j)
            bit = inputs.get(key)
            if bit is None:
                bit = (default >> (nbits - 1 - j)) & 1
            v = (v << 1) | bit
        return v

    cells, units = blocks.assemble(order, field)
    return order, bytes(cells), units


def _plain(task, inputs):
    from lib.levels import relax_levels

    relax_levels()
    order, data, units = _concrete(task, inputs)
    cls, st, exc = dec.run_decoder(io.BytesIO(data))
    verdict, rules = blocks.reference(units)
    return order, data, cls, exc, st, bool(verdict), rules


def validate(task, inputs, outcome):
    from vc2_conformance.decoder.exceptions import ConformanceError

    order, data, cls, exc, st, verdict, rules = _plain(task, inputs)
    got = [inputs.get("order", 0), cls[0], cls[1] if len(cls) > 1 else None]
    if cls[0] == "EXC":
        got = [got[0], "EXC"]
    if list(outcome) != got:
        return "path predicted %r, plain decoder gives %r for order %r stream %s" % (outcome, got, order, data.hex())
    if isinstance(exc, ConformanceError):
        try:
            dec.report_conformance_error(exc, st)
        except Exception as e:  # noqa
            return {"label": "conformance-error-report-raises", "key": "C01:report:%s:%s" % (type(exc).__name__, type(e).__name__),
                    "detail": "%r while reporting %s; order %r stream %s" % (e, type(exc).__name__, order, data.hex())}
    return None


def replay(task, label, inputs, extra):
    order, data, cls, exc, st, verdict, rules = _plain(task, inputs)
    rule = blocks.first_failing_rule(rules)
    if cls[0] == "EXC":
        import traceback

        where = "?"
        for fr in reversed(traceback.extract_tb(exc.__traceback__)):
            if "/vc2_conformance/" in fr.filename:
                where = fr.name
                break
        return {"reproduced": True, "key": "C01:crash:%s:%s" % (type(exc).__name__, where),
                "detail": "order %r: parse_stream raised %r on %s" % (order, exc, data.hex())}
    accepted = cls[0] == "ok"
    if accepted != verdict:
        kinds = sorted(set(blocks.library()[n].code for n in order))
        return {"reproduced": True,
                "key": "C01:%s:%s" % ("over-accept" if accepted else "over-reject:" + cls[1], rule),
                "detail": "order %r: decoder %s, reference %s (first failing rule: %s); stream %s" % (
                    order, "accepts" if accepted else "rejects with " + cls[1], "accepts" if verdict else "rejects", rule, data.hex())}
    return {"reproduced": False, "key": None, "detail": "decoder %r and reference %r agree on %s" % (cls, verdict, data.hex())}


def MIN_REACH(outcomes, per_task, tasks):
    import json

    acc = rej = 0
    kinds = set()
    for k, n in outcomes.items():
        try:
            o = json.loads(k)
        except Exception:
            continue
        if o[1] == "ok":
            acc += n
        elif o[1] == "CE":
            rej += n
            kinds.add(o[2])
    if acc < 20:
        return "only %d accepting paths reached" % acc
    if len(kinds) < 15:
        return "only %d distinct conformance errors reached: %r" % (len(kinds), sorted(kinds))
    return None


def canaries():
    def wrap_mask_dropped():
        import vc2_conformance.decoder.assertions as A
        from vc2_conformance.decoder.exceptions import NonConsecutivePictureNumbers, EarliestFieldHasOddPictureNumber
        from vc2_data_tables import PictureCodingModes

        def f(state, picture_number_offset):
            if "_last_picture_number" in state:
                expected = state["_last_picture_number"] + 1  # & 0xFFFFFFFF dropped
                if state["picture_number"] != expected:
                    raise NonConsecutivePictureNumbers(state["_last_picture_number_offset"], state["_last_picture_number"],
                                                       picture_number_offset, state["picture_number"])
            state["_last_picture_number"] = state["picture_number"]
            state["_last_picture_number_offset"] = picture_number_offset
            if state["picture_coding_mode"] == PictureCodingModes.pictures_are_fields:
                if state["_num_pictures_in_sequence"] % 2 == 0 and state["picture_number"] % 2 != 0:
                    raise EarliestFieldHasOddPictureNumber(state["picture_number"])
            state["_num_pictures_in_sequence"] += 1

        _patch_everywhere(A.assert_picture_number_incremented_as_expected, f, "assert_picture_number_incremented_as_expected")

    def zero_next_offset_skips_previous_check():
        import vc2_conformance.decoder.stream as S

        src_marker = S.parse_info
        orig = S.parse_info

        def parse_info(state):
            had_zero = state.get("next_parse_offset") == 0 and "_last_parse_info_offset" in state and state.get("parse_code") in (0xE8, 0xC8)
            try:
                orig(state)
            except S.InconsistentPreviousParseOffset:
                if not had_zero:
                    raise
                state["_last_parse_info_offset"] = S.tell(state)[0] - 13

        S.parse_info = parse_info

    def fragment_y_offset_unchecked():
        import vc2_conformance.decoder.fragment_syntax as F

        orig = F.fragment_header

        def fragment_header(state):
            try:
                orig(state)
            except F.FragmentSlicesNotContiguous as e:
                if e.fragment_x_offset != e.expected_fragment_x_offset:
                    raise

        F.fragment_header = fragment_header

    def odd_fields_accepted_with_padding():
        import vc2_conformance.decoder.stream as S

        orig = S.parse_sequence

        def parse_sequence(state):
            try:
                orig(state)
            except S.OddNumberOfFieldsInSequence as e:
                if e.num_fields_in_sequence != 3:
                    raise

        S.parse_sequence = parse_sequence

    return [("wrap_mask_dropped", wrap_mask_dropped), ("zero_next_offset_skips_previous_check", zero_next_offset_skips_previous_check),
            ("fragment_y_offset_unchecked", fragment_y_offset_unchecked), ("odd_fields_accepted_with_padding", odd_fields_accepted_with_padding)]


def _patch_everywhere(old, new, name):
    import sys

    for n, m in list(sys.modules.items()):
        if m is not None and n.startswith("vc2_conformance") and getattr(m, name, None) is old:
            setattr(m, name, new)
