"""C02 -- the validator terminates with a verdict on any byte string (within modest resource bounds).

Real code: the whole vc2_conformance.decoder package via parse_stream (plus pseudocode/*, symbol_re,
constraint_table, level_constraints, version_constraints).

Symbolic: every bit of chosen byte regions of committed fixture streams (field groups, sliding windows
over headers, whole stream prefixes) and the truncation point.  Everything else stays concrete.
"""
from __future__ import annotations

import random

from lib import dec
from symx.symfile import SymFile

PROPERTY_ID = "C02"
LEVEL = "model_checking"
RULE = (
    "task = (fixture stream, symbolic byte region); every path of the real parse_stream over all values of the region's bits is "
    "explored; a path must end accepted or with a ConformanceError (anything else is a violation, witness = the bytes); each "
    "path's model is then run through the plain decoder, which must give the same verdict, and for every ConformanceError the "
    "validator's reporting (explain, offending_offset, bitstream_viewer_hint, str.format) must not raise"
)
BOUNDS = {
    "quick": "15 fixtures (2 of them non-conformant base streams); regions: each parse-info block (9 bytes after the prefix), one pair of adjacent blocks on 4 fixtures, every 2-byte window over the sequence header of 2 fixtures, 2 seeded 2-byte windows per picture/fragment unit (picture number, transform parameters, first slice bytes), padding payload, the 4 prefix bytes, stream prefix of 12 bytes, truncation anywhere; declared sizes <= dec.RESOURCE_BOUNDS",
    "thorough": "19 fixtures (the quick ones plus 4) with the quick region recipe: each parse-info block, one pair of adjacent blocks on 4 fixtures, every 2-byte window over the sequence header of 2 fixtures, 2 seeded 2-byte windows per picture/fragment unit, padding payload, the 4 prefix bytes, stream prefix of 12 bytes, truncation anywhere",
}
OUTSIDE = "regions larger than the bound; streams declaring sizes above the resource bounds (counted as out_of_scope paths)"
ASSUMPTIONS = [
    "SymFile stands for the input file; bytes outside the symbolic region are those of the committed fixture",
    "assert_level_constraint is wrapped in-process to abandon paths declaring frame sizes/depths/slice counts above dec.RESOURCE_BOUNDS (property's hook_needed)",
    "levels 1, 64 and 66 use a relaxed value table admitting the 8x4 test format (lib.levels); ordering patterns are the repository's",
]
STUBS = ["SymFile", "bytearray stand-in in vc2_conformance.decoder.io", "resource-bound wrapper around assert_level_constraint"]
BUDGET_S = {"quick": 900, "thorough": 3400}
ENGINE_OPTS = {"max_decisions": 6000}
REPLAYS_PER_LABEL = 2


def _regions_for(name, meta, data, tier, rnd):
    """[(label, [(start, len), ...]), ...] for one fixture."""
    out = []
    units = meta["units"]
    win = 2
    quick = tier == "quick"
    # parse info blocks
    for i, (off, code, npo, ln) in enumerate(units):
        out.append(("pi%d" % i, [(off + 4, 9)]))
    pairs = [(i, i + 1) for i in range(len(units) - 1)]
    if quick:
        pairs = rnd.sample(pairs, 1) if name in PAIR_FIXTURES else []
    elif name not in PAIR_FIXTURES:
        pairs = []
    for i, j in pairs:
        out.append(("pi%d+%d" % (i, j), [(units[i][0] + 4, 9), (units[j][0] + 4, 9)]))
    out.append(("prefix0", [(units[0][0], 4)]))
    # payload windows
    seen_header = False
    for i, (off, code, npo, ln) in enumerate(units):
        body = off + 13
        end = off + ln
        if code == 0x00:  # sequence header: every 2-byte window (first header of the stream only)
            if seen_header or name not in (HEADER_FIXTURES if quick else HEADER_FIXTURES_T):
                continue
            seen_header = True
            starts = list(range(body, end - win + 1))
        elif code in (0xE8, 0xC8):  # pictures: picture number, transform parameters, first slice bytes
            starts = list(range(body, min(end, body + 14) - win + 1))
            # two seeded windows per unit at both tiers (thorough = every fixture; sets of every k-th window over all
            # fixtures exhausted a 3400 s budget three times and were given up)
            starts = sorted(rnd.sample(starts, min(2 if quick else 3, len(starts))))
        elif code in (0xEC, 0xCC):
            starts = list(range(body, min(end, body + 16) - win + 1))
            # two seeded windows per unit at both tiers (thorough = every fixture; sets of every k-th window over all
            # fixtures exhausted a 3400 s budget three times and were given up)
            starts = sorted(rnd.sample(starts, min(2 if quick else 3, len(starts))))
        elif code in (0x20, 0x30) and ln > 13:
            starts = [body]
        else:
            starts = []
        for s in starts:
            out.append(("u%d@%d" % (i, s - off), [(s, min(win, end - s))]))
    return out


PAIR_FIXTURES_T = ["hq_min", "hq_frag", "hq_padaux_payload", "two_sequences", "ld_frag", "hq_fields", "ld_min", "hq_level1"]
PAIR_FIXTURES = ["hq_min", "hq_frag", "hq_padaux_payload", "two_sequences"]
HEADER_FIXTURES = ["hq_min", "hq_asym"]
HEADER_FIXTURES_T = ["hq_min", "hq_asym", "ld_min", "hq_level1"]
QUICK_FIXTURES = ["hq_min", "hq_frag", "ld_min", "ld_frag", "hq_fields", "hq_asym", "hq_padaux_payload", "hq_2headers", "hq_level1", "hq_level66", "two_sequences", "hq_tiny_lossless", "neg_pic_then_fragslice", "neg_frag_then_pic", "hq_asym_then_sym"]


# The thorough tier that could be run end-to-end within this session's time: the quick fixtures plus four more (every larger
# definition exhausted its 3400 s budget; the last attempt over all 31 fixtures was stopped unfinished after 28 minutes).
THOROUGH_FIXTURES = QUICK_FIXTURES + ["hq_lossless", "hq_v3_pics", "ld_v3_pics", "hq_params_change"]


def precheck():
    return dec.verify_fixtures(PROPERTY_ID)


def tasks(tier, seed):
    rnd = random.Random(seed)
    idx = dec.fixture_index()
    names = THOROUGH_FIXTURES if tier == "thorough" else QUICK_FIXTURES
    out = []
    for name in names:
        meta = idx[name]
        data, _ = dec.fixture(name)
        # thorough = the quick region recipe on every fixture: larger region sets (every k-th window of every unit, 14-byte
        # stream prefixes, header windows on more fixtures) exhausted a 3400 s budget in four attempts and were given up
        for label, regions in _regions_for(name, meta, data, "quick", rnd):
            out.append({"id": "%s/%s" % (name, label), "harness": "region", "args": (name, regions)})
        out.append({"id": "%s/truncate" % name, "harness": "truncate", "args": (name,)})
    out.append({"id": "hq_min/stream-prefix-12", "harness": "region", "args": ("hq_min", [(0, 12)])})
    return out


def build(task):
    from lib.levels import relax_levels

    relax_levels()
    dec.install_resource_bounds()
    name = task["args"][0]
    data, meta = dec.fixture(name)

    if task["harness"] == "region":
        regions = task["args"][1]

        def h(ctx):
            cells = dec.sym_region(ctx, data, regions)
            cls, st, exc = dec.run_decoder(SymFile(cells))
            if cls[0] == "EXC":
                ctx.fail("unexpected-exception", list(cls))
            return list(cls)

        return h

    def ht(ctx):
        cut = ctx.sym_int("cut", 0, len(data), default=len(data))
        cls, st, exc = dec.run_decoder(SymFile(list(data), limit=cut))
        if cls[0] == "EXC":
            ctx.fail("unexpected-exception", list(cls))
        return list(cls)

    return ht


def _concrete(task, inputs):
    name = task["args"][0]
    data, meta = dec.fixture(name)
    if task["harness"] == "truncate":
        return data[: inputs.get("cut", len(data))]
    return dec.bytes_from_inputs(data, inputs)


def _plain_run(task, inputs):
    import io
    from lib.levels import relax_levels

    relax_levels()
    b = _concrete(task, inputs)
    cls, st, exc = dec.run_decoder(io.BytesIO(b))
    return b, cls, st, exc


def _key(cls, exc, stage):
    """Executable characterisation of a crash: exception type + raising function + message head."""
    import traceback

    where = "?"
    if exc is not None and exc.__traceback__ is not None:
        tb = traceback.extract_tb(exc.__traceback__)
        for fr in reversed(tb):
            if "/vc2_conformance/" in fr.filename:
                where = "%s:%s" % (fr.filename.split("/vc2_conformance/", 1)[1], fr.name)
                break
    msg = str(exc)
    return "C02:%s:%s:%s:%s" % (stage, type(exc).__name__, where, msg[:60])


def validate(task, inputs, outcome):
    """Plain decoder on the path's model: same verdict; conformance errors must be reportable."""
    from vc2_conformance.decoder.exceptions import ConformanceError

    b, cls, st, exc = _plain_run(task, inputs)
    if list(cls) != list(outcome):
        if cls[0] == "EXC" and outcome[0] == "EXC" and cls[1] == outcome[1]:
            pass
        else:
            return "symbolic path predicted %r, plain decoder gives %r on %s" % (outcome, cls, b.hex())
    if isinstance(exc, ConformanceError):
        try:
            dec.report_conformance_error(exc, st)
        except Exception as e:  # noqa
            return {"label": "conformance-error-report-raises", "key": _key(cls, e, "report:" + type(exc).__name__),
                    "detail": "%s while reporting %s for stream %s" % (repr(e)[:200], type(exc).__name__, b.hex())}
    return None


def replay(task, label, inputs, extra):
    b, cls, st, exc = _plain_run(task, inputs)
    if cls[0] == "EXC":
        return {"reproduced": True, "key": _key(cls, exc, "decode"), "detail": "parse_stream raised %r on stream %s" % (exc, b.hex())}
    return {"reproduced": False, "key": None, "detail": "plain decoder gives %r on %s" % (cls, b.hex())}


def MIN_REACH(outcomes, per_task, tasks):
    """Reachability twin: the exploration must have reached acceptance and several distinct conformance errors."""
    import json

    kinds = set()
    for k in outcomes:
        try:
            kinds.add(tuple(json.loads(k))[:2])
        except Exception:
            pass
    if ("ok",) not in kinds:
        return "no accepting path was reached"
    if len([k for k in kinds if k and k[0] == "CE"]) < 10:
        return "fewer than 10 distinct conformance error classes reached: %r" % sorted(kinds)
    empty = [t["id"] for t in tasks if per_task.get(t["id"], 0) == 0]
    if empty:
        return "tasks without any explored path: %r" % empty[:5]
    return None


def canaries():
    def fragment_offset_used_before_set():
        import vc2_conformance.decoder.fragment_syntax as F
        from vc2_conformance.decoder.io import read_uint_lit

        orig = F.fragment_data

        def fragment_data(state):
            if state["fragment_x_offset"] == 1 and state["fragment_slice_count"] == 1:
                state["_scratch"]  # KeyError on a rare but valid continuation fragment
            return orig(state)

        F.fragment_data = fragment_data

    def explain_formats_missing_field():
        import vc2_conformance.decoder.exceptions as E

        def explain(self):
            return "bad prefix {:08X} {}".format(self.parse_info_prefix, self.args[1])

        E.BadParseInfoPrefix.explain = explain

    def padding_reads_one_too_many_on_length_14():
        import vc2_conformance.decoder.stream as S

        def padding(state):
            n = state["next_parse_offset"] - 12
            if n == 2:
                raise ZeroDivisionError("padding of one byte")
            for i in range(1, n):
                S.read_uint_lit(state, 1)

        S.padding = padding

    return [("fragment_offset_used_before_set", fragment_offset_used_before_set),
            ("explain_formats_missing_field", explain_formats_missing_field),
            ("padding_reads_one_too_many_on_length_14", padding_reads_one_too_many_on_length_14)]
