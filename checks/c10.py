"""C10 -- concatenated sequences are validated and decoded independently.

Self-composition on the real decoder: for sequences S1..Sk (block orders from lib.blocks, one of them with
all structural fields symbolic) the decoder is run, inside one path, on the concatenation and on each
sequence alone; z3 proves  accept(S1|..|Sk) <=> all accept(Si),  that the pictures output for the
concatenation are the concatenation of the pictures of the parts (count, picture numbers, samples), and
that the first rejected part is rejected with the same exception class inside the concatenation.
"""
from __future__ import annotations

import io
import random

from lib import blocks, dec
from symx.core import is_sym, cv_of
from symx.symfile import SymFile

PROPERTY_ID = "C10"
LEVEL = "model_checking"
RULE = (
    "tuple of sequences drawn from 17 block orders (4 of them individually non-conformant) covering HQ/LD profiles, versions 1-3, levels 0/1/66, pictures vs fragments, "
    "fields; one member has symbolic next/previous offsets, picture numbers and fragment offsets (so it may be non-conformant); "
    "per path: verdict of the concatenation = conjunction of the parts, same exception class, pictures concatenate"
)
BOUNDS = {
    "quick": "all ordered pairs of 17 sequences, symbolic member second; 40 seeded pairs with the symbolic member first",
    "thorough": "all ordered pairs with the symbolic member at either position; 300 seeded triples with the symbolic member at each position",
}
OUTSIDE = "more than 3 sequences; payload bytes are concrete"
ASSUMPTIONS = ["blocks come from committed fixtures; levels 1 and 66 use the relaxed value table (lib.levels)"]
STUBS = ["SymFile", "bytearray stand-in in vc2_conformance.decoder.io"]
BUDGET_S = {"quick": 600, "thorough": 3000}
ENGINE_OPTS = {"max_decisions": 8000}
REPLAYS_PER_LABEL = 2

SEQS = [
    ["SH", "PIC", "PIC", "EOS"],
    ["SH", "EOS"],
    ["SH_V3", "F0", "FS0", "FS1", "EOS"],
    ["SH_V3", "F0", "FS01", "F0", "FS01", "EOS"],
    ["SH_LD", "PIC_LD", "EOS"],
    ["SH_LD_V3", "F0_LD", "FS0_LD", "FS1_LD", "EOS"],
    ["SH_FIELDS", "PIC", "PIC", "EOS"],
    ["SH_L1", "PIC", "PADU", "PIC", "EOS"],
    ["SH_L1_V3", "F0", "FS01", "EOS"],
    ["SH_L66", "PIC", "SH_L66", "PIC", "EOS"],
    ["SH", "PADU", "AUXU", "PIC", "PAD3", "EOS"],
    ["SH_V3", "EOS"],
    ["SH_PC", "PC1", "PC2", "PC3", "EOS"],  # custom -> default -> custom quantisation matrix, changing transform parameters
    # individually non-conformant members (must stay rejected, with the same error, wherever they are placed)
    ["SH_V3", "PIC", "EOS"],                  # major_version too high
    ["SH_FIELDS", "PIC", "EOS"],              # odd number of fields
    ["SH_L1_V3", "PIC", "F0", "FS01", "EOS"],  # level 1 ordering pattern
    ["SH_V3", "F0", "FS0", "EOS"],            # incomplete fragmented picture
]


def precheck():
    return dec.verify_fixtures(PROPERTY_ID)


def tasks(tier, seed):
    rnd = random.Random(seed)
    n = len(SEQS)
    combos = []
    for a in range(n):
        for b in range(n):
            combos.append(((a, b), 1))
    firsts = [((a, b), 0) for a in range(n) for b in range(n)]
    if tier == "quick":
        combos += rnd.sample(firsts, 40)
    else:
        combos += firsts
        for _ in range(300):
            t = tuple(rnd.randrange(n) for _ in range(3))
            combos.append((t, rnd.randrange(3)))
    out = []
    B = 3
    for i in range(0, len(combos), B):
        out.append({"id": "tuples#%d" % (i // B), "harness": "concat", "args": combos[i:i + B]})
    return out


def _build_cells(combo, field_for):
    idxs, symi = combo
    parts = []
    for j, si in enumerate(idxs):
        order = blocks.normalise_order(SEQS[si])
        cells, units = blocks.assemble(order, field_for(j, j == symi))
        parts.append(cells)
    return parts


def _decode(cells):
    pics = []

    def cb(pic, vp, pcm):
        pics.append((pic["pic_num"], [[list(r) for r in pic[c]] for c in ("Y", "C1", "C2")], dict(vp), pcm))

    cls, st, exc = dec.run_decoder(SymFile(cells) if not isinstance(cells, (bytes, bytearray)) else io.BytesIO(cells), on_picture=cb)
    if dec.tables_digest() != dec.PRISTINE_TABLES:
        cls = ("EXC", "ModuleLevelTableModified", "decoding changed a module-level table (quantisation matrices / level patterns / presets)")
    return cls, pics


def _compare(parts, decode, prove, prove_eq):
    """The property, shared by the symbolic harness and the plain replay."""
    whole = [c for p in parts for c in p]
    # the parts alone first, last part first: state leaking through module-level tables (not only through State) then
    # shows up as a difference between a part decoded alone and the same part inside the concatenation
    single = [decode(p) for p in reversed(parts)][::-1]
    cw, pw = decode(whole)
    all_ok = all(c[0] == "ok" for c, _ in single)
    prove((cw[0] == "ok") == all_ok, "verdict-of-concatenation", [list(cw), [list(c) for c, _ in single]])
    # first failing part decides the class
    exp_pics = []
    for c, p in single:
        exp_pics.extend(p)
        if c[0] != "ok":
            prove(list(cw) == list(c), "same-exception-class", [list(cw), list(c)])
            break
    prove(len(pw) == len(exp_pics), "picture-count", [len(pw), len(exp_pics)])
    for (n1, s1, vp1, m1), (n2, s2, vp2, m2) in zip(pw, exp_pics):
        prove_eq(n1, n2, "picture-number")
        prove(s1 == s2 and vp1 == vp2 and m1 == m2, "picture-content")
    return cw, single


def build(task):
    from lib.levels import relax_levels

    relax_levels()
    combos = task["args"]

    def h(ctx):
        k = ctx.concretize(ctx.sym_int("combo", 0, len(combos) - 1))

        def field_for(j, symbolic):
            def field(i, name, nbits, default):
                if symbolic:
                    return ctx.sym_bits("s%d.u%d.%s" % (j, i, name), nbits, default)
                return default

            return field

        parts = _build_cells(combos[k], field_for)
        cw, single = _compare(parts, _decode, lambda c, l, e=None: ctx.prove(c, l, e), lambda a, b, l: ctx.prove_eq(a, b, l))
        if cw[0] == "EXC" or any(c[0] == "EXC" for c, _ in single):
            ctx.fail("unexpected-exception", [list(cw)])
        return [k, cw[0], cw[1] if len(cw) > 1 else None]

    return h


def _plain(task, inputs):
    from lib.levels import relax_levels

    relax_levels()
    combos = task["args"]
    k = inputs.get("combo", 0)

    def field_for(j, symbolic):
        def field(i, name, nbits, default):
            v = 0
            for b in range(nbits):
                bit = inputs.get("s%d.u%d.%s.%d" % (j, i, name, b))
                if bit is None:
                    bit = (default >> (nbits - 1 - b)) & 1
                v = (v << 1) | bit
            return v if symbolic else default

        return field

    parts = [bytes(p) for p in _build_cells(combos[k], field_for)]
    bad = []

    def prove(c, label, extra=None):
        if not c:
            bad.append((label, extra))

    cw, single = _compare(parts, lambda cells: _decode(bytes(cells)), prove, lambda a, b, l: prove(a == b, l))
    return k, parts, cw, single, bad


def validate(task, inputs, outcome):
    k, parts, cw, single, bad = _plain(task, inputs)
    got = [k, cw[0], cw[1] if len(cw) > 1 else None]
    if got != list(outcome):
        return "path predicted %r, plain decoder gives %r on %s" % (outcome, got, b"".join(parts).hex())
    return None


def replay(task, label, inputs, extra):
    k, parts, cw, single, bad = _plain(task, inputs)
    if cw[0] == "EXC" or any(c[0] == "EXC" for c, _ in single):
        return {"reproduced": True, "key": "C10:crash:%s" % (cw[1] if cw[0] == "EXC" else [c for c, _ in single if c[0] == "EXC"][0][1]),
                "detail": "combo %r streams %s" % (task["args"][k], [p.hex() for p in parts])}
    if bad:
        return {"reproduced": True, "key": "C10:%s" % bad[0][0],
                "detail": "combo %r (sequences %r): whole=%r parts=%r; streams %s" % (task["args"][k], [SEQS[i] for i in task["args"][k][0]], cw, [c for c, _ in single], [p.hex() for p in parts])}
    return {"reproduced": False, "key": None, "detail": "whole=%r parts=%r" % (cw, [c for c, _ in single])}


def MIN_REACH(outcomes, per_task, tasks):
    import json

    acc = sum(n for k, n in outcomes.items() if json.loads(k)[1] == "ok")
    rej = len(set(json.loads(k)[2] for k in outcomes if json.loads(k)[1] == "CE"))
    if acc < 50 or rej < 8:
        return "accepting paths %d, distinct conformance errors %d" % (acc, rej)
    return None


def canaries():
    def level_matcher_retained():
        import vc2_conformance.pseudocode.state as S

        S.retained_state_fields.append("_level_sequence_matcher")

    def last_picture_number_retained():
        import vc2_conformance.pseudocode.state as S

        S.retained_state_fields.append("_last_picture_number")

    def expected_version_leaks():
        import vc2_conformance.pseudocode.state as S

        S.retained_state_fields.append("_expected_major_version")

    return [("level_matcher_retained", level_matcher_retained), ("last_picture_number_retained", last_picture_number_retained),
            ("expected_version_leaks", expected_version_leaks)]
