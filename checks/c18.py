"""C18 -- the data-unit pattern matcher implements its regular-expression language.

Real code: symbol_re.tokenize_regex / parse_regex / NFA.from_ast / NFANode / Matcher.
Oracle: Brzozowski derivatives over an independent AST (lib.regex_ref).

Selector-symbolic (DESIGN 2.7): the matcher stores symbols in hash-keyed dictionaries, so the next symbol is a
symbolic *selector* that the engine concretises by solver-driven forking; every symbol sequence up to the bound is
explored for every pattern of the catalogue.
"""
from __future__ import annotations

import random

from lib import regex_ref as R

PROPERTY_ID = "C18"
LEVEL = "exploration"
RULE = (
    "pattern catalogue = every syntax tree up to N nodes over {a, b, .} with concatenation, |, ?, *, + (rendered to text and parsed by "
    "the real parser; also with a trailing $), plus the repository's level patterns and the patterns used by the encoder and test-case "
    "generators; for each pattern every symbol sequence up to length L (symbols chosen by a solver-enumerated selector); a case is "
    "non-trivial if the pattern has an operator; distinct = (pattern, sequence) pairs"
)
BOUNDS = {
    "quick": "all 1035 syntax trees up to 5 nodes (each also with a trailing $) x all sequences up to length 4 over {a, b, c}; the level patterns and 7 further patterns x all sequences up to length 3 over the 8 data-unit names",
    "thorough": "all 5463 syntax trees up to 6 nodes x sequences up to length 5; real patterns x sequences up to length 4",
}
OUTSIDE = "larger patterns / longer sequences; '$' anywhere but at the very end"
ASSUMPTIONS = ["reference semantics: lib/regex_ref.py (derivatives); '$' only trailing"]
STUBS = []
BUDGET_S = {"quick": 500, "thorough": 2400}
IFCONV = False

UNITS = ["sequence_header", "end_of_sequence", "auxiliary_data", "padding_data", "low_delay_picture", "high_quality_picture",
         "low_delay_picture_fragment", "high_quality_picture_fragment"]
EXTRA_PATTERNS = [
    "sequence_header .* end_of_sequence",
    "(. padding_data)+ end_of_sequence",
    "sequence_header (padding_data .)* end_of_sequence $",
    "(sequence_header .)* .",
    "sequence_header . (sequence_header? .)*",
    "(a* | b*) c",
    "(a | b c)* (b | .)? a+ $",
]


def _real_patterns():
    from vc2_conformance.level_constraints import LEVEL_SEQUENCE_RESTRICTIONS

    pats = []
    for lv, r in sorted(LEVEL_SEQUENCE_RESTRICTIONS.items()):
        if r.sequence_restriction_regex not in pats:
            pats.append(r.sequence_restriction_regex)
    return pats + EXTRA_PATTERNS


def tasks(tier, seed):
    rnd = random.Random(seed)
    n = 5 if tier == "quick" else 6
    L = 4 if tier == "quick" else 5
    asts = R.enumerate_asts(n)
    out = []
    B = 12
    for i in range(0, len(asts), B):
        out.append({"id": "asts#%d" % (i // B), "harness": "ast", "args": (asts[i:i + B], L, ["a", "b", "c"])})
    pats = _real_patterns()
    for i, p in enumerate(pats):
        alpha = UNITS if "sequence_header" in p or "padding_data" in p else ["a", "b", "c"]
        out.append({"id": "real#%d" % i, "harness": "real", "args": (p, 3 if tier == "quick" else 4, alpha)})
    return out


def _walk(ctx_choose, matcher, ref, alphabet, L, report, WILDCARD, EOS):
    """Drive the real matcher and the reference in lock-step; report(label, ok, detail)."""
    seq = []
    fresh = "zz_not_in_pattern"
    for step in range(L + 1):
        # observations before the next symbol
        report("is_complete", bool(matcher.is_complete()) == ref.is_complete(), seq)
        vn = set(matcher.valid_next_symbols())
        report("valid_next:end_of_sequence", (EOS in vn) == ref.is_complete(), [seq, sorted(map(str, vn))])
        for x in list(alphabet) + [fresh]:
            covered = (x in vn) or (WILDCARD in vn)
            report("valid_next:%s" % ("fresh" if x == fresh else "listed"), covered == ref.accepts(x), [seq, x, sorted(map(str, vn))])
        for x in vn:
            if x not in (WILDCARD, EOS):
                report("valid_next:listed-symbol-keeps-match", ref.accepts(x), [seq, x])
        if step == L:
            break
        k = ctx_choose(step, len(alphabet))
        x = alphabet[k]
        got = bool(matcher.match_symbol(x))
        exp = ref.match_symbol(x)
        report("match_symbol", got == exp, [seq, x, got, exp])
        if got != exp:
            return seq + [x]
        if got:
            seq = seq + [x]
        # a rejected symbol must leave the matcher where it was: keep going with the same prefix
    return seq


def _mk(pattern_text):
    from vc2_conformance.symbol_re import Matcher, WILDCARD, END_OF_SEQUENCE

    return Matcher(pattern_text), WILDCARD, END_OF_SEQUENCE


def build(task):
    if task["harness"] == "ast":
        asts, L, alpha = task["args"]
        pats = []
        for t in asts:
            pats.append((R.render(t), R.lower(t)))
            pats.append((R.render(t) + " $", R.lower(t)))

        def h(ctx):
            pi = ctx.concretize(ctx.sym_int("pattern", 0, len(pats) - 1))
            text, core = pats[pi]
            m, W, E = _mk(text)
            ref = R.RefMatcher(core)
            seq = _walk(lambda s, n: ctx.concretize(ctx.sym_int("s%d" % s, 0, n - 1)), m, ref, alpha, L,
                        lambda lab, ok, det: ctx.prove(ok, lab, [text, det]), W, E)
            return "p%d" % pi

        return h

    text, L, alpha = task["args"]
    core = R.parse(text)

    def hr(ctx):
        m, W, E = _mk(text)
        ref = R.RefMatcher(core)
        _walk(lambda s, n: ctx.concretize(ctx.sym_int("s%d" % s, 0, n - 1)), m, ref, alpha, L,
              lambda lab, ok, det: ctx.prove(ok, lab, [text, det]), W, E)
        return "real"

    return hr


def validate(task, inputs, outcome):
    return None


def replay(task, label, inputs, extra):
    """Plain re-run with the recorded selector values."""
    bad = []
    if task["harness"] == "ast":
        asts, L, alpha = task["args"]
        pi = inputs.get("pattern", 0)
        t = asts[pi // 2]
        text = R.render(t) + (" $" if pi % 2 else "")
        core = R.lower(t)
    else:
        text, L, alpha = task["args"]
        core = R.parse(text)
    m, W, E = _mk(text)
    ref = R.RefMatcher(core)
    seq = _walk(lambda s, n: inputs.get("s%d" % s, 0), m, ref, alpha, L, lambda lab, ok, det: bad.append((lab, det)) if not ok else None, W, E)
    return {"reproduced": bool(bad), "key": "C18:%s" % (bad[0][0] if bad else None),
            "detail": "pattern %r sequence %r: %r" % (text, seq, bad[:2])}


def canaries():
    def bidirectional_epsilon():
        import vc2_conformance.symbol_re as S

        S.NFANode.add_empty_transition = lambda self, dest: S.NFANode.add_transition(self, dest)

    def plus_treated_as_star():
        import vc2_conformance.symbol_re as S

        orig = S.NFA.from_ast.__func__

        def from_ast(cls, ast):
            nfa = orig(cls, ast)
            if isinstance(ast, S.Concatenation) and isinstance(ast.b, S.Star) and ast.a is ast.b.expr:
                nfa.start.add_empty_transition(nfa.final)
            return nfa

        S.NFA.from_ast = classmethod(from_ast)

    def wildcard_not_complete():
        import vc2_conformance.symbol_re as S

        orig = S.Matcher.is_complete

        def is_complete(self):
            r = orig(self)
            if r and len(self.cur_states) == 3:
                return False
            return r

        S.Matcher.is_complete = is_complete

    return [("bidirectional_epsilon", bidirectional_epsilon), ("plus_treated_as_star", plus_treated_as_star), ("wildcard_not_complete", wildcard_not_complete)]
