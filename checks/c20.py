"""C20 -- bit-level readers and writers agree on every primitive.

Real code: bitstream/io.py (BitstreamReader, BitstreamWriter, to/from_bit_offset), bitstream/exp_golomb.py,
decoder/io.py (read_*, byte_align, flush_inputb, tell).

Symbolic: every bit of the input (N bits as 0/1 atoms); bounded-block lengths; written values via their bits.
"""
from __future__ import annotations

import random

from symx.core import compare0, is_sym, cv_of, ite, sym_max
from symx.symfile import SymFile, sym_bytes

PROPERTY_ID = "C20"
LEVEL = "model_checking"
RULE = (
    "scenario = (primitive, alignment offset, parameters); the input is a buffer of symbolic bits; the same cells are read by "
    "BitstreamReader and by the decoder's read_* functions; per path: equal values, equal tell(), equal end-of-file behaviour; "
    "the value is written back with BitstreamWriter and every written bit must equal the consumed input bit; exp-Golomb "
    "length functions must equal the consumed bit count; bounded blocks with symbolic length; out-of-range writes must raise "
    "OutOfRangeError and leave the sink untouched; seek/tell with symbolic targets; if-converted functions equal the originals"
)
BOUNDS = {
    "quick": "input buffers of 2 bytes (16 symbolic bits), alignment offsets 0..7, bounded-block length symbolic in 0..N+2 (reader alone: -2..N+2)",
    "thorough": "input buffers of 3 bytes (24 symbolic bits) for exp-Golomb primitives and 4 bytes for fixed-width ones, same scenarios",
}
OUTSIDE = "bit strings longer than the bound (values >= 2^12); negative bounded-block lengths for the decoder's reader (no caller can pass one: see C08)"
ASSUMPTIONS = [
    "SymFile stands for io.BytesIO; bytearray/bitarray in the two io modules are list-based stand-ins when cells are symbolic",
    "if-conversion of write_bit/read_uint/read_sint/... is validated here against the original code on all bit strings of the bound",
]
STUBS = ["SymFile", "bytearray/bitarray stand-ins in vc2_conformance.bitstream.io and vc2_conformance.decoder.io"]
BUDGET_S = {"quick": 600, "thorough": 3000}


def tasks(tier, seed):
    nb = 2 if tier == "quick" else 3
    nbw = 2 if tier == "quick" else 4
    out = []
    for k0 in range(8):
        for prim in ("uint", "sint"):
            out.append({"id": "%s@%d" % (prim, k0), "harness": "prim", "args": (nb, k0, prim, None, seed)})
        for prim, params in (("bit", [None]), ("nbits", [0, 1, 3, 8, 9]), ("uint_lit", [0, 1]), ("bytes", [0, 1]), ("bitarray", [0, 5, 9])):
            for p in params:
                out.append({"id": "%s(%s)@%d" % (prim, p, k0), "harness": "prim", "args": (nbw, k0, prim, p, seed)})
    for k0 in (0, 3, 7):
        for ops in (("sint",), ("uint", "sint"), ("bit", "uint"), ("nbits5",), ("sint", "sint")):
            out.append({"id": "block %s@%d" % ("+".join(ops), k0), "harness": "block", "args": (nb, k0, ops, seed)})
        out.append({"id": "block-reader-negative@%d" % k0, "harness": "block_neg", "args": (nb, k0, seed)})
    for L in range(0, 4):
        out.append({"id": "writer-past-end L=%d" % L, "harness": "wpast", "args": (L,)})
    for k0 in (0, 3, 8):
        for ops in (("nbits8", "uint_lit1"), ("bytes1", "nbits8"), ("uint_lit1", "bit", "bytes1"), ("nbits3", "nbits8")):
            out.append({"id": "writer-block %s@%d" % ("+".join(ops), k0), "harness": "wblock", "args": (k0, ops)})
    for n in (2, 5, 9, 12):
        for back in (1, 3, n):
            if back <= n:
                out.append({"id": "seek-inside-block n=%d back=%d" % (n, back), "harness": "blockseek", "args": (n, back)})
    for k in (0, 1, 3, 8):
        out.append({"id": "out-of-range nbits(%d)" % k, "harness": "oor_nbits", "args": (k,)})
    out.append({"id": "out-of-range uint/bytes/bitarray", "harness": "oor_misc", "args": ()})
    out.append({"id": "seek/tell reader", "harness": "seek", "args": (nbw, seed)})
    out.append({"id": "seek/tell writer", "harness": "wseek", "args": ()})
    for prim in ("uint", "sint", "rsint", "uintb", "sintb", "wbit"):
        out.append({"id": "ifconv-equivalence %s" % prim, "harness": "ifconv", "args": (nb, prim, seed)})
    out.append({"id": "bit-offset conversions", "harness": "offsets", "args": ()})
    return out


def _mods():
    import vc2_conformance.bitstream.io as bio
    import vc2_conformance.decoder.io as dio
    import vc2_conformance.bitstream.exp_golomb as eg
    from vc2_conformance.bitstream.exceptions import OutOfRangeError
    from vc2_conformance.decoder.exceptions import UnexpectedEndOfStream
    from vc2_conformance.pseudocode.state import State

    return bio, dio, eg, OutOfRangeError, UnexpectedEndOfStream, State


def _cells(ctx, n, seed):
    rnd = random.Random(seed * 7919 + n)
    return sym_bytes(ctx, "b", n, defaults=[rnd.randrange(256) for _ in range(n)])


def _bits_of(cells):
    """MSB-first list of bit expressions of the byte cells."""
    out = []
    for c in cells:
        for i in range(7, -1, -1):
            out.append((c >> i) & 1)
    return out


def _try(f, exc):
    try:
        return f(), None
    except exc:
        return None, "eof"


def _check_written(ctx, wf, cells, end_bits, label):
    """Every bit written (first end_bits bits) equals the input bit; nothing else was written."""
    w = wf.getcells()
    nfull, rem = divmod(end_bits, 8)
    ctx.prove(len(w) == nfull + (1 if rem else 0), label + ":written-length", [len(w), end_bits])
    for i in range(min(nfull, len(w))):
        ctx.prove_eq(w[i], cells[i], label + ":byte%d" % i)
    if rem and len(w) > nfull:
        mask = ~((1 << (8 - rem)) - 1) & 0xFF
        ctx.prove_eq(w[nfull], cells[nfull] & mask, label + ":partial-byte")


def build(task):
    bio, dio, eg, OutOfRangeError, UEOS, State = _mods()
    hname = task["harness"]
    a = task["args"]

    def reader_and_state(cells):
        r = bio.BitstreamReader(SymFile(cells))
        st = State()
        dio.init_io(st, SymFile(cells))
        return r, st

    if hname == "prim":
        nb, k0, prim, p, seed = a

        def h(ctx):
            cells = _cells(ctx, nb, seed)
            r, st = reader_and_state(cells)
            va, e1 = _try(lambda: r.read_nbits(k0), EOFError)
            vb, e2 = _try(lambda: dio.read_nbits(st, k0), UEOS)
            ctx.prove(e1 == e2, "align-eof")
            if e1:
                return "eof-in-align"
            ctx.prove_eq(va, vb, "align-value")
            start = bio.to_bit_offset(*r.tell())
            if prim == "bit":
                f1, f2 = r.read_bit, lambda: dio.read_bit(st)
            elif prim == "nbits":
                f1, f2 = lambda: r.read_nbits(p), lambda: dio.read_nbits(st, p)
            elif prim == "uint_lit":
                f1, f2 = lambda: r.read_uint_lit(p), lambda: dio.read_uint_lit(st, p)
            elif prim == "bytes":
                f1 = lambda: r.read_bytes(p)
                f2 = lambda: [dio.read_uint_lit(st, 1) for _ in range(p)]
            elif prim == "bitarray":
                f1 = lambda: r.read_bitarray(p)
                f2 = lambda: [dio.read_bit(st) for _ in range(p)]
            elif prim == "uint":
                f1, f2 = r.read_uint, lambda: dio.read_uint(st)
            else:
                f1, f2 = r.read_sint, lambda: dio.read_sint(st)
            v1, e1 = _try(f1, EOFError)
            v2, e2 = _try(f2, UEOS)
            ctx.prove(e1 == e2, "eof-agreement", [prim, e1, e2])
            if e1 or e2:
                return "eof"
            if prim in ("bytes", "bitarray"):
                l1, l2 = list(v1), list(v2)
                ctx.prove(len(l1) == len(l2), "length", [len(l1), len(l2)])
                for i, (x, y) in enumerate(zip(l1, l2)):
                    ctx.prove_eq(x, y, "value[%d]" % i)
            else:
                ctx.prove_eq(v1, v2, "value")
            t1, t2 = r.tell(), dio.tell(st)
            ctx.prove(t1[0] == t2[0] and t1[1] == t2[1], "tell-agreement", [list(map(cv_of, t1)), list(map(cv_of, t2))])
            end = bio.to_bit_offset(*t1)
            consumed = end - start
            # the value is what the bits say (independent reference for the fixed-width primitives)
            bits = _bits_of(cells)
            if prim in ("bit", "nbits", "uint_lit"):
                n = 1 if prim == "bit" else (p if prim == "nbits" else 8 * p)
                ref = 0
                for b in bits[start : start + n]:
                    ref = 2 * ref + b
                ctx.prove_eq(v1, ref, "value-is-msb-first")
                ctx.prove(consumed == n, "consumed", [consumed, n])
            if prim == "uint":
                ctx.prove(eg.exp_golomb_length(v1) == consumed, "exp-golomb-length", [consumed])
            if prim == "sint":
                ctx.prove(eg.signed_exp_golomb_length(v1) == consumed, "signed-exp-golomb-length", [consumed])
            # write back
            wf = SymFile()
            w = bio.BitstreamWriter(wf)
            w.write_nbits(k0, va)
            if prim == "bit":
                w.write_bit(v1)
            elif prim == "nbits":
                w.write_nbits(p, v1)
            elif prim == "uint_lit":
                w.write_uint_lit(p, v1)
            elif prim == "bytes":
                w.write_bytes(p, v1)
            elif prim == "bitarray":
                w.write_bitarray(p, v1)
            elif prim == "uint":
                w.write_uint(v1)
            else:
                w.write_sint(v1)
            tw = w.tell()
            ctx.prove(tw[0] == t1[0] and tw[1] == t1[1], "writer-tell", [list(map(cv_of, tw)), list(map(cv_of, t1))])
            w.flush()
            _check_written(ctx, wf, cells, end, "writeback")
            return "ok consumed=%d" % consumed

        return h

    if hname in ("block", "block_neg"):
        if hname == "block":
            nb, k0, ops, seed = a
            lo = 0
        else:
            nb, k0, seed = a
            ops = ("sint", "bit")
            lo = -2

        def hb(ctx):
            cells = _cells(ctx, nb, seed)
            r, st = reader_and_state(cells)
            r.read_nbits(k0)
            dio.read_nbits(st, k0)
            L = ctx.sym_int("L", lo, 8 * nb + 2, default=5)
            start = bio.to_bit_offset(*r.tell())
            r.bounded_block_begin(L)
            st["bits_left"] = L
            vals = []
            for op in ops:
                if op == "sint":
                    f1, f2 = r.read_sint, lambda: dio.read_sintb(st)
                elif op == "uint":
                    f1, f2 = r.read_uint, lambda: dio.read_uintb(st)
                elif op == "bit":
                    f1, f2 = r.read_bit, lambda: dio.read_bitb(st)
                else:
                    f1 = lambda: r.read_nbits(5)
                    f2 = lambda: sum((dio.read_bitb(st) << (4 - i)) for i in range(5))
                v1, e1 = _try(f1, EOFError)
                if hname == "block_neg":
                    if e1:
                        return "eof"
                    vals.append(v1)
                    continue
                v2, e2 = _try(f2, UEOS)
                ctx.prove(e1 == e2, "block-eof-agreement", [op, e1, e2])
                if e1 or e2:
                    return "eof"
                ctx.prove_eq(v1, v2, "block-value:%s" % op)
                vals.append(v1)
            remaining = r.bits_remaining
            unused = r.bounded_block_end()
            ctx.prove_eq(unused, sym_max(0, remaining), "unused=max(0,remaining)")
            pos_r = bio.to_bit_offset(*r.tell())
            used = pos_r - start
            # reads past the end yield 1: reference decode of "in-block bits then all ones"
            Lc = ctx.concretize(L)
            if hname == "block_neg" and Lc <= 0:
                # whole block is past the end: every bit read is 1 => sint = 0 ('1'), bit = 1
                ctx.prove_eq(vals[0], 0, "negative-block-reads-ones")
                ctx.prove_eq(vals[1], 1, "negative-block-reads-ones")
                ctx.prove(used == 0, "negative-block-consumes-nothing", [used])
                return "neg L=%d" % Lc
            if hname == "block_neg":
                return "neg L=%d" % Lc
            ctx.prove(used <= Lc, "reader-stays-inside-block", [used, Lc])
            left = st["bits_left"]
            ctx.prove_eq(left, unused, "bits_left=unused")
            _, e = _try(lambda: dio.flush_inputb(st), UEOS)
            if e:
                return "eof-in-flush"
            pos_d = bio.to_bit_offset(*dio.tell(st))
            ctx.prove_eq(pos_d, pos_r + unused, "flush-consumes-unused")
            # write the values back inside a block of the same length
            wf = SymFile()
            w = bio.BitstreamWriter(wf)
            w.write_nbits(k0, r0_align(cells, k0))
            w.bounded_block_begin(Lc)
            try:
                for op, v in zip(ops, vals):
                    if op == "sint":
                        w.write_sint(v)
                    elif op == "uint":
                        w.write_uint(v)
                    elif op == "bit":
                        w.write_bit(v)
                    else:
                        w.write_nbits(5, v)
            except ValueError:
                ctx.prove(False, "writer-rejects-what-reader-read", [Lc])
                return "writer-valueerror"
            wun = w.bounded_block_end()
            ctx.prove_eq(wun, unused, "writer-unused")
            tw = w.tell()
            tr = r.tell()
            ctx.prove(tw[0] == tr[0] and tw[1] == tr[1], "block-writer-tell", [list(map(cv_of, tw)), list(map(cv_of, tr))])
            w.flush()
            _check_written(ctx, wf, cells, pos_r, "block-writeback")
            return "L=%d used=%d" % (Lc, used)

        def r0_align(cells, k0):
            v = 0
            for b in _bits_of(cells)[:k0]:
                v = 2 * v + b
            return v

        return hb

    if hname == "wpast":
        (L,) = a

        def hw(ctx):
            n = L + 3
            bits = [ctx.sym_int("v%d" % i, 0, 1, default=1) for i in range(n)]
            wf = SymFile()
            w = bio.BitstreamWriter(wf)
            w.bounded_block_begin(L)
            err_at = None
            for i in range(n):
                try:
                    w.write_bit(bits[i])
                except ValueError:
                    err_at = i
                    break
            # reference: first index >= L whose bit is 0
            ref = None
            for i in range(L, n):
                if cv_of(bits[i]) == 0:
                    ref = i
                    break
            ctx.prove(err_at == ref, "zero-past-end-rejected-ones-accepted", [err_at, ref, [cv_of(b) for b in bits]])
            w.bounded_block_end()
            w.flush()
            cells = wf.getcells()
            ctx.prove(len(cells) == (1 if L else 0), "past-end-writes-nothing", [len(cells)])
            if L and cells:
                ref_b = 0
                for i in range(L):
                    ref_b = ref_b + bits[i] * (1 << (7 - i))
                ctx.prove_eq(cells[0], ref_b, "in-block-bits-written")
            return "err_at=%r" % (err_at,)

        return hw

    if hname == "wblock":
        k0, ops = a

        def hwb(ctx):
            L = ctx.sym_int("L", -1, 20, default=8)
            wf = SymFile()
            w = bio.BitstreamWriter(wf)
            w.write_nbits(k0, (1 << k0) - 1 if k0 else 0)
            w.bounded_block_begin(L)
            # reference: every primitive is its MSB-first bit sequence pushed through the documented bit rule
            model_bits = [1] * k0
            remaining = L
            err_model = None
            err_real = None
            for i, op in enumerate(ops):
                n = {"nbits8": 8, "uint_lit1": 8, "bytes1": 8, "bit": 1, "nbits3": 3}[op]
                v = ctx.sym_bits("v%d" % i, n, (0xA5 >> (8 - n)) if n < 8 else 0xA5)
                vb = [(v >> (n - 1 - j)) & 1 for j in range(n)]
                try:
                    if op == "nbits8":
                        w.write_nbits(8, v)
                    elif op == "nbits3":
                        w.write_nbits(3, v)
                    elif op == "uint_lit1":
                        w.write_uint_lit(1, v)
                    elif op == "bytes1":
                        w.write_bytes(1, [v])
                    else:
                        w.write_bit(v)
                except ValueError:
                    err_real = i
                for b in vb:
                    if err_model is not None:
                        break
                    if remaining > 0:
                        model_bits.append(b)
                    elif not bool(b == 1):
                        err_model = i
                    remaining = remaining - 1
                if err_real is not None or err_model is not None:
                    break
            ctx.prove(err_real == err_model, "zero-past-end-raises-iff", [ops, err_real, err_model])
            if err_real is None and err_model is None:
                ctx.prove_eq(w.bits_remaining, remaining, "bits_remaining")
                unused = w.bounded_block_end()
                ctx.prove_eq(unused, sym_max(0, remaining), "unused")
                nb = len(model_bits)
                t = w.tell()
                ctx.prove(t[0] == nb // 8 and t[1] == 7 - nb % 8, "tell", [list(map(cv_of, t)), nb])
                w.flush()
                cells = wf.getcells()
                ctx.prove(len(cells) == (nb + 7) // 8, "written-length", [len(cells), nb])
                for i in range(min(len(cells), (nb + 7) // 8)):
                    ref = 0
                    for j in range(8):
                        k = 8 * i + j
                        ref = 2 * ref + (model_bits[k] if k < nb else 0)
                    ctx.prove_eq(cells[i], ref, "written-byte%d" % i)
            return "err=%r" % (err_real,)

        return hwb

    if hname == "blockseek":
        n, back = a

        def hbs(ctx):
            # writer and reader: begin a block of symbolic length, move n bits forward, seek `back` bits backwards, move on
            L = ctx.sym_int("L", 0, 24, default=16)
            k0 = ctx.concretize(ctx.sym_int("k0", 0, 2)) * 3
            data = [0xFF] * 6
            r = bio.BitstreamReader(SymFile(data))
            w = bio.BitstreamWriter(SymFile())
            r.read_nbits(k0)
            w.write_nbits(k0, (1 << k0) - 1)
            r.bounded_block_begin(L)
            w.bounded_block_begin(L)
            for _ in range(n):
                r.read_bit()
                w.write_bit(1)
            ctx.prove_eq(w.bits_remaining, L - n, "writer-bits_remaining-before-seek")
            ctx.prove_eq(r.bits_remaining, L - n, "reader-bits_remaining-before-seek")
            target = bio.from_bit_offset(k0 + n - back)
            rok = wok = True
            try:
                r.seek(*target)
            except Exception:
                rok = False
            try:
                w.seek(*target)
            except Exception:
                wok = False
            ctx.prove(rok == wok, "seek-accepted-by-both-or-neither", [rok, wok])
            if not (rok and wok):
                return "seek refused"
            ctx.prove(tuple(map(cv_of, w.tell())) == tuple(map(cv_of, r.tell())) == tuple(target), "tell-after-seek", [list(map(cv_of, w.tell())), list(map(cv_of, r.tell())), list(target)])
            ctx.prove_eq(w.bits_remaining, r.bits_remaining, "writer-and-reader-agree-on-bits_remaining-after-seek")
            # while the block was not yet exhausted before the seek, the remaining count is simply restored
            inside = (L - n) > 0
            if is_sym(inside):
                inside = bool(inside)
            if inside:
                ctx.prove_eq(w.bits_remaining, L - n + back, "bits_remaining-restored-by-backward-seek")
            for i in range(4):
                vr = r.read_bit()
                try:
                    w.write_bit(1)
                except ValueError:
                    ctx.prove(False, "writer-rejects-a-1-bit")
                ctx.prove_eq(w.bits_remaining, r.bits_remaining, "agree-after-seek-step%d" % i)
                ctx.prove_eq(vr, 1, "reads-ones")
            return "ok"

        return hbs

    if hname == "oor_nbits":
        (k,) = a

        def ho(ctx):
            v = ctx.sym_int("v", -3, (1 << (k + 1)) + 2, default=1)
            wf = SymFile()
            w = bio.BitstreamWriter(wf)
            w.write_nbits(3, 5)
            before = (list(wf.getcells()), w.tell(), w._current_byte)
            raised = False
            try:
                w.write_nbits(k, v)
            except OutOfRangeError:
                raised = True
            vc = ctx.concretize(v) if False else None
            inrange = (v >= 0) & (v < (1 << k)) if is_sym(v) else (0 <= v < (1 << k))
            ctx.prove(compare_bool(inrange, not raised), "out-of-range-raises-iff", [k, cv_of(v), raised])
            if raised:
                after = (list(wf.getcells()), w.tell(), w._current_byte)
                ctx.prove(before[0] == after[0] and before[1] == after[1], "sink-unchanged")
                ctx.prove_eq(before[2], after[2], "sink-unchanged-current-byte")
            else:
                w.flush()
                c = wf.getcells()
                tot = 5 * (1 << (k + 0)) + v  # bits: 101 then k bits of v
                nbits = 3 + k
                # expected bytes, MSB first, zero padded
                pad = (-nbits) % 8
                full = tot * (1 << pad)
                nby = (nbits + pad) // 8
                for i in range(nby):
                    ctx.prove_eq(c[i], (full >> (8 * (nby - 1 - i))) & 0xFF, "nbits-bytes")
            return "raised=%s" % raised

        return ho

    if hname == "oor_misc":

        def hm(ctx):
            v = ctx.sym_int("v", -5, 40, default=-1)
            wf = SymFile()
            w = bio.BitstreamWriter(wf)
            raised = False
            try:
                w.write_uint(v)
            except OutOfRangeError:
                raised = True
            ctx.prove(compare_bool(v >= 0, not raised), "uint-negative-raises-iff", [cv_of(v), raised])
            if raised:
                w.flush()
                ctx.prove(wf.getcells() == [] and w.tell() == (0, 7), "uint-sink-unchanged")
            raised2 = False
            try:
                eg.exp_golomb_length(v)
            except OutOfRangeError:
                raised2 = True
            ctx.prove(raised == raised2, "exp-golomb-length-raises-iff-writer", [raised, raised2])
            # bytes / bitarray too long (lengths are concrete; contents symbolic)
            for n in (0, 1, 2):
                for ln in (0, 1, 2, 3):
                    wf2 = SymFile()
                    w2 = bio.BitstreamWriter(wf2)
                    # the error message formats the bytes: keep contents concrete on the raising path
                    data = [ctx.sym_bits("d%d_%d_%d" % (n, ln, i), 8, 0xA5) if ln <= n else 0xA5 for i in range(ln)]
                    r2 = False
                    try:
                        w2.write_bytes(n, data)
                    except OutOfRangeError:
                        r2 = True
                    ctx.prove(r2 == (ln > n), "bytes-too-long-raises-iff", [n, ln, r2])
                    w2.flush()
                    c = wf2.getcells()
                    if r2:
                        ctx.prove(c == [], "bytes-sink-unchanged")
                    else:
                        ctx.prove(len(c) == n, "bytes-padded-length", [len(c), n])
                        for i in range(min(n, len(c))):
                            ctx.prove_eq(c[i], data[i] if i < ln else 0, "bytes-content-and-zero-pad")
            return "raised=%s" % raised

        return hm

    if hname == "seek":
        nb, seed = a

        def hs(ctx):
            cells = _cells(ctx, nb, seed)
            B = ctx.sym_int("B", 0, nb, default=1)
            b = ctx.sym_int("bit", 0, 7, default=4)
            r = bio.BitstreamReader(SymFile(cells))
            r.read_nbits(3)
            r.seek(B, b)
            t = r.tell()
            ctx.prove(compare_bool((t[0] == B) & (t[1] == b) if is_sym(B) or is_sym(b) else (t[0] == B and t[1] == b), True), "tell-after-seek")
            v1, e1 = _try(lambda: r.read_nbits(5), EOFError)
            r2 = bio.BitstreamReader(SymFile(cells))
            off = bio.to_bit_offset(B, b)
            fb = bio.from_bit_offset(off)
            ctx.prove(compare_bool((fb[0] == B) & (fb[1] == b) if is_sym(fb[0]) or is_sym(fb[1]) else (fb[0] == B and fb[1] == b), True), "from(to(offset))")
            _, e0 = _try(lambda: r2.read_nbits(off), EOFError)
            if e0:
                ctx.prove(e1 == "eof", "seek-to-eof-then-read-fails", [e1])
                return "eof"
            v2, e2 = _try(lambda: r2.read_nbits(5), EOFError)
            ctx.prove(e1 == e2, "seek-eof-agreement", [e1, e2])
            if not e1 and not e2:
                ctx.prove_eq(v1, v2, "read-after-seek")
            return "ok"

        return hs

    if hname == "wseek":

        def hws(ctx):
            v = ctx.sym_bits("v", 8, 0x5A)
            u = ctx.sym_bits("u", 3, 5)
            wf = SymFile()
            w = bio.BitstreamWriter(wf)
            w.write_nbits(8, v)
            w.write_nbits(3, u)
            ctx.prove(w.tell() == (1, 4), "writer-tell", [w.tell()])
            w.seek(0, 7)
            ctx.prove(w.tell() == (0, 7), "writer-tell-after-seek", [w.tell()])
            w.write_nbits(8, u + 8)
            w.flush()
            c = wf.getcells()
            ctx.prove(len(c) == 2, "writer-seek-length", [len(c)])
            ctx.prove_eq(c[0], u + 8, "writer-seek-overwrites")
            ctx.prove_eq(c[1], u * 32, "writer-seek-keeps-flushed-partial-byte")
            return "ok"

        return hws

    if hname == "ifconv":
        from symx import shims

        nb, prim, seed = a

        def hi(ctx):
            cells = _cells(ctx, nb, seed)
            outs = []
            for on in (False, True):
                shims.set_ifconv(on)
                try:
                    r, st = reader_and_state(cells)
                    st["bits_left"] = 8 * nb - 3
                    if prim == "wbit":
                        wf = SymFile()
                        w = bio.BitstreamWriter(wf)
                        for b in _bits_of(cells)[:10]:
                            w.write_bit(b)
                        w.flush()
                        outs.append((wf.getcells(), None, w.tell()))
                        continue
                    f = {"uint": lambda: dio.read_uint(st), "sint": lambda: dio.read_sint(st), "rsint": r.read_sint,
                         "uintb": lambda: dio.read_uintb(st), "sintb": lambda: dio.read_sintb(st)}[prim]
                    exc = EOFError if prim == "rsint" else UEOS
                    v, e = _try(f, exc)
                    outs.append((v, e, r.tell() if prim == "rsint" else dio.tell(st)))
                finally:
                    shims.set_ifconv(True)
            (v0, e0, t0), (v1, e1, t1) = outs
            ctx.prove(e0 == e1, "ifconv-eof", [e0, e1])
            ctx.prove(t0[0] == t1[0] and t0[1] == t1[1], "ifconv-tell", [list(map(cv_of, t0)), list(map(cv_of, t1))])
            if prim == "wbit":
                ctx.prove(len(v0) == len(v1), "ifconv-len")
                for x, y in zip(v0, v1):
                    ctx.prove_eq(x, y, "ifconv-written-byte")
            elif not e0:
                ctx.prove_eq(v0, v1, "ifconv-value")
            return "ok"

        return hi

    def hoff(ctx):
        B = ctx.sym_int("B", 0, None, default=3)
        b = ctx.sym_int("bit", 0, 7, default=2)
        off = bio.to_bit_offset(B, b)
        fb = bio.from_bit_offset(off)
        ctx.prove_eq(fb[0], B, "from(to).bytes")
        ctx.prove_eq(fb[1], b, "from(to).bits")
        t = ctx.sym_int("t", 0, None, default=77)
        fb2 = bio.from_bit_offset(t)
        ctx.prove_eq(bio.to_bit_offset(*fb2), t, "to(from)")
        ctx.prove_all([fb2[1] >= 0, fb2[1] <= 7], "bit-index-range")
        return "ok"

    return hoff


def compare_bool(a, b):
    """a == b for a bool/SymBool, b bool -> bool/SymBool."""
    if is_sym(a):
        return a if b else a.negate()
    return bool(a) == b


# ---------------------------------------------------------------------------- plain-code replay
def _concrete_cells(inputs, n):
    out = []
    for i in range(n):
        v = 0
        for j in range(8):
            v = (v << 1) | inputs.get("b[%d].%d" % (i, j), 0)
        out.append(v)
    return bytes(out)


def _plain_prim(a, inputs):
    """Concrete re-statement of the 'prim' scenario on io.BytesIO with the plain code."""
    import io

    bio, dio, eg, OutOfRangeError, UEOS, State = _mods()
    nb, k0, prim, p, seed = a
    data = _concrete_cells(inputs, nb)
    r = bio.BitstreamReader(io.BytesIO(data))
    st = State()
    dio.init_io(st, io.BytesIO(data))
    try:
        va = r.read_nbits(k0)
    except EOFError:
        va = "eof"
    try:
        vb = dio.read_nbits(st, k0)
    except UEOS:
        vb = "eof"
    if va != vb:
        return "align"
    if va == "eof":
        return None
    start = bio.to_bit_offset(*r.tell())
    f1, f2 = {
        "bit": (r.read_bit, lambda: dio.read_bit(st)),
        "nbits": (lambda: r.read_nbits(p), lambda: dio.read_nbits(st, p)),
        "uint_lit": (lambda: r.read_uint_lit(p), lambda: dio.read_uint_lit(st, p)),
        "bytes": (lambda: list(bytearray(r.read_bytes(p))), lambda: [dio.read_uint_lit(st, 1) for _ in range(p)]),
        "bitarray": (lambda: list(r.read_bitarray(p)), lambda: [dio.read_bit(st) for _ in range(p)]),
        "uint": (r.read_uint, lambda: dio.read_uint(st)),
        "sint": (r.read_sint, lambda: dio.read_sint(st)),
    }[prim]
    try:
        v1 = f1()
    except EOFError:
        v1 = "eof"
    try:
        v2 = f2()
    except UEOS:
        v2 = "eof"
    if (v1 == "eof") != (v2 == "eof"):
        return "eof-agreement"
    if v1 == "eof":
        return None
    if v1 != v2:
        return "value"
    if tuple(r.tell()) != tuple(dio.tell(st)):
        return "tell-agreement"
    end = bio.to_bit_offset(*r.tell())
    consumed = end - start
    bits = [(byte >> i) & 1 for byte in data for i in range(7, -1, -1)]
    if prim in ("bit", "nbits", "uint_lit"):
        n = 1 if prim == "bit" else (p if prim == "nbits" else 8 * p)
        ref = 0
        for b in bits[start : start + n]:
            ref = 2 * ref + b
        if v1 != ref or consumed != n:
            return "value-is-msb-first"
    if prim == "uint" and eg.exp_golomb_length(v1) != consumed:
        return "exp-golomb-length"
    if prim == "sint" and eg.signed_exp_golomb_length(v1) != consumed:
        return "signed-exp-golomb-length"
    wf = io.BytesIO()
    w = bio.BitstreamWriter(wf)
    w.write_nbits(k0, va)
    from bitarray import bitarray

    {
        "bit": lambda: w.write_bit(v1),
        "nbits": lambda: w.write_nbits(p, v1),
        "uint_lit": lambda: w.write_uint_lit(p, v1),
        "bytes": lambda: w.write_bytes(p, bytes(bytearray(v1))),
        "bitarray": lambda: w.write_bitarray(p, bitarray(v1)),
        "uint": lambda: w.write_uint(v1),
        "sint": lambda: w.write_sint(v1),
    }[prim]()
    if tuple(w.tell()) != tuple(r.tell()):
        return "writer-tell"
    w.flush()
    out = wf.getvalue()
    exp = bytearray(data[: (end + 7) // 8])
    if end % 8:
        exp[-1] &= ~((1 << (8 - end % 8)) - 1) & 0xFF
    if bytes(out) != bytes(exp):
        return "writeback"
    return None


def validate(task, inputs, outcome):
    if task["harness"] == "prim":
        bad = _plain_prim(task["args"], inputs)
        # a failure here is either a real violation (also reported by the obligations) or nothing
        return None
    return None


def replay(task, label, inputs, extra):
    """Re-run the scenario with the model's inputs on the plain code: the same harness, concrete values, no shims."""
    if task["harness"] == "prim":
        bad = _plain_prim(task["args"], inputs)
        return {"reproduced": bad is not None, "key": "C20:prim:%s" % (label.split(":")[0] if bad else None),
                "detail": "task=%s data=%s plain-code failure=%s (symbolic label %s)" % (task["id"], _concrete_cells(inputs, task["args"][0]).hex(), bad, label)}
    # other scenarios: run the very same harness function concretely through the engine with every input pinned
    from symx import core

    fn = build(task)
    eng = core.Engine({})

    def pinned(ctx):
        orig = ctx.sym_int

        def sym_int(name, lo=None, hi=None, default=None):
            v = inputs.get(name, default if default is not None else 0)
            if lo is not None:
                v = max(v, lo)
            if hi is not None:
                v = min(v, hi)
            return v

        def sym_bits(name, nbits, default=0):
            v = 0
            for j in range(nbits):
                b = inputs.get("%s.%d" % (name, j))
                v = (v << 1) | ((default >> (nbits - 1 - j)) & 1 if b is None else b)
            return v

        ctx.sym_int = sym_int
        ctx.sym_bits = sym_bits
        return fn(ctx)

    ctx, res = core.run_path(pinned, eng, [], {})
    bad = [f for f in res.failed]
    return {"reproduced": bool(bad), "key": "C20:%s:%s" % (task["harness"], bad[0][0].split(":")[0] if bad else None),
            "detail": "task=%s inputs=%r failed=%r" % (task["id"], {k: v for k, v in inputs.items() if not k.startswith("b[")}, [(f[0], f[3]) for f in bad][:3])}


def canaries():
    def decoder_sint_sign_on_zero():
        import vc2_conformance.decoder.io as dio

        def read_sint(state):
            value = dio.read_uint(state)
            if value != 0 or state["next_bit"] == 0:
                if dio.read_bit(state) == 1:
                    value = -value
            return value

        dio.read_sint = read_sint

    def reader_uint_limit():
        import vc2_conformance.bitstream.io as bio

        def read_uint(self):
            value = 1
            while True:
                if self.read_bit():
                    break
                value <<= 1
                value += self.read_bit()
                if value == 37:
                    value = 36
            return value - 1

        bio.BitstreamReader.read_uint = read_uint

    def golomb_length_off():
        import vc2_conformance.bitstream.exp_golomb as eg

        def exp_golomb_length(value):
            if value < 0:
                raise eg.OutOfRangeError(value)
            return (((value + 1).bit_length() - 1) * 2) + (1 if value != 30 else 3)

        eg.exp_golomb_length = exp_golomb_length

    def writer_accepts_zero_past_end():
        import vc2_conformance.bitstream.io as bio

        orig = bio.BitstreamWriter.write_bit

        def write_bit(self, value):
            if self._bits_remaining is not None and self._bits_remaining == -1 and not value:
                self._bits_remaining -= 1
                return
            return orig(self, value)

        bio.BitstreamWriter.write_bit = write_bit

    def flush_leaves_a_bit():
        import vc2_conformance.decoder.io as dio

        def flush_inputb(state):
            while state["bits_left"] > (1 if state["next_bit"] == 2 else 0):
                dio.read_bit(state)
                state["bits_left"] -= 1

        dio.flush_inputb = flush_inputb

    def nbits_range_check_off_by_one():
        import vc2_conformance.bitstream.io as bio

        def write_nbits(self, bits, value):
            if value < 0 or value.bit_length() > bits + (1 if bits == 3 else 0):
                raise bio.OutOfRangeError("x")
            for i in range(bits - 1, -1, -1):
                self.write_bit((value >> i) & 1)

        bio.BitstreamWriter.write_nbits = write_nbits

    return [("decoder_sint_sign_on_zero", decoder_sint_sign_on_zero), ("reader_uint_limit", reader_uint_limit),
            ("golomb_length_off", golomb_length_off), ("writer_accepts_zero_past_end", writer_accepts_zero_past_end),
            ("flush_leaves_a_bit", flush_leaves_a_bit), ("nbits_range_check_off_by_one", nbits_range_check_off_by_one)]
