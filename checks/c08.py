"""C08 -- the bitstream deserialiser and the validator read identical content.

On the same (partly symbolic) stream both parsers are run inside one path: the real decoder (picture_decode wrapped
in-process to capture its transform data) and the real Deserialiser.  For every accepted path: same data-unit
sequence, same header / transform-parameter values and picture numbers, and the deserialiser's slice coefficients
pushed through the real inverse_quant and dc_prediction equal the decoder's y/c1/c2_transform (z3 equality per
coefficient).  Also: bits_left is never negative when a decoder bounded block is read (fact deferred from C20).
"""
from __future__ import annotations

import copy
import io
import random

from lib import dec
from symx.core import cv_of, is_sym, sym_max
from symx.symfile import SymFile

PROPERTY_ID = "C08"
LEVEL = "model_checking"
RULE = (
    "task = (fixture, symbolic byte region inside slice data or transform parameters); every path of the real decoder is explored; "
    "on accepting paths the Deserialiser parses the same cells and per coefficient z3 proves dc_prediction(inverse_quant(deserialised)) "
    "= decoder transform data; header values, picture numbers and data-unit codes are compared"
)
BOUNDS = {
    "quick": "12 fixtures (HQ lossy/lossless, LD, fragments, asymmetric, slice_size_scaler 2, transform parameters changing between pictures); per picture/fragment unit 8 seeded single symbolic bytes (transform parameters, slice qindex/length fields, payload) and one seeded 2-byte window on 3 fixtures",
    "thorough": "13 fixtures; every single byte of each picture/fragment unit, 2 seeded 2-byte windows per unit on 7 fixtures",
}
OUTSIDE = "more than 3 symbolic payload bytes per exploration (entropy-coded data forks per exp-Golomb bit); rejected streams"
ASSUMPTIONS = ["picture_decode is wrapped in-process to capture decoder state (property's hook_needed)", "resource bounds as in C02/C06"]
STUBS = ["SymFile", "bytearray/bitarray stand-ins", "capture wrapper around picture_decode", "resource-bound wrappers"]
BUDGET_S = {"quick": 700, "thorough": 3200}
ENGINE_OPTS = {"max_decisions": 20000}
REPLAYS_PER_LABEL = 2
IFCONV = ["write_bit"]

FIX_Q = ["hq_min", "hq_lossless", "ld_min", "hq_frag", "ld_frag", "hq_asym", "hq_tiny_lossless", "hq_scaler2", "hq_asym_then_sym", "hq_params_change", "hq_signal_preset7", "hq_signal_preset8"]
PAIR_FIXTURES = ["hq_min", "ld_min", "hq_tiny_lossless"]
PAIR_FIXTURES_T = ["hq_min", "ld_min", "hq_tiny_lossless", "hq_frag", "ld_frag", "hq_lossless", "hq_asym"]
FIX_T = FIX_Q + ["hq_fields", "hq_420", "hq_tiny"]


def precheck():
    return dec.verify_fixtures(PROPERTY_ID)


def tasks(tier, seed):
    rnd = random.Random(seed)
    idx = dec.fixture_index()
    out = []
    for name in (FIX_Q if tier == "quick" else FIX_T):
        meta = idx[name]
        for i, (off, code, npo, ln) in enumerate(meta["units"]):
            if code not in (0xE8, 0xC8, 0xEC, 0xCC):
                continue
            body, end = off + 13, off + ln
            singles = list(range(body + 4, end))
            pairs = list(range(body + 4, end - 1))
            if tier == "quick":
                singles = sorted(rnd.sample(singles, min(8, len(singles))))
                lastpic = [k for k, u in enumerate(meta["units"]) if u[1] in (0xE8, 0xC8, 0xEC, 0xCC)][-1]
                pairs = sorted(rnd.sample(pairs, 1)) if (i == lastpic and name in PAIR_FIXTURES) else []
            else:
                pairs = sorted(rnd.sample(pairs, min(2, len(pairs)))) if name in PAIR_FIXTURES_T else []
            for s in singles:
                out.append({"id": "%s/u%d@%d/1" % (name, i, s - off), "harness": "both", "args": (name, [(s, 1)])})
            for s in pairs:
                out.append({"id": "%s/u%d@%d/2" % (name, i, s - off), "harness": "both", "args": (name, [(s, 2)])})
    return out


# ---------------------------------------------------------------------------- shared comparison
def _capture_install():
    """Wrap picture_decode where the decoder looks it up; returns the list captures are appended to."""
    import vc2_conformance.decoder.stream as S

    if getattr(S.picture_decode, "_symx_capture", None) is not None:
        return S.picture_decode._symx_capture
    orig = S.picture_decode
    caps = []

    def picture_decode(state):
        caps.append({
            "picture_number": state["picture_number"],
            "parse_code": state["parse_code"],
            "y": copy.deepcopy(state["y_transform"]), "c1": copy.deepcopy(state["c1_transform"]), "c2": copy.deepcopy(state["c2_transform"]),
            "params": {k: state.get(k) for k in ("wavelet_index", "wavelet_index_ho", "dwt_depth", "dwt_depth_ho", "slices_x", "slices_y",
                                                  "slice_prefix_bytes", "slice_size_scaler", "slice_bytes_numerator", "slice_bytes_denominator",
                                                  "luma_width", "luma_height", "color_diff_width", "color_diff_height", "major_version", "profile", "level")},
            "quant_matrix": copy.deepcopy(state["quant_matrix"]),
            "derived": {k: state.get(k) for k in ("luma_width", "luma_height", "color_diff_width", "color_diff_height", "luma_depth", "color_diff_depth", "picture_coding_mode")},
            "video_parameters": dict(state["video_parameters"]),
        })
        return orig(state)

    picture_decode._symx_capture = caps
    S.picture_decode = picture_decode
    return caps


def _bits_left_install(report):
    import vc2_conformance.decoder.transform_data_syntax as T

    if getattr(T.slice_band, "_symx", False):
        T.slice_band._report[0] = report
        return
    holder = [report]
    for name in ("slice_band", "color_diff_slice_band"):
        orig = getattr(T, name)

        def make(orig):
            def f(state, *a):
                holder[0](state["bits_left"])
                return orig(state, *a)

            f._symx = True
            f._report = holder
            return f

        setattr(T, name, make(orig))


def _deser(f):
    from vc2_conformance import bitstream as B
    from vc2_conformance.pseudocode.state import State

    r = B.BitstreamReader(f)
    with B.Deserialiser(r) as des:
        B.parse_stream(des, State())
    return des.context


def _band_order(params, comp):
    """(level, orient, y, x) in the order slice_band visits the coefficients of slice (sx, sy) -- via the real slice_sizes."""
    from vc2_conformance.pseudocode import slice_sizes as SS

    d, dh = params["dwt_depth"], params["dwt_depth_ho"]
    if dh == 0:
        bands = [(0, "LL")] + [(l, o) for l in range(1, d + 1) for o in ("HL", "LH", "HH")]
    else:
        bands = [(0, "L")] + [(l, "H") for l in range(1, dh + 1)] + [(l, o) for l in range(dh + 1, dh + d + 1) for o in ("HL", "LH", "HH")]

    def order(sx, sy):
        out = []
        for level, orient in bands:
            for y in range(SS.slice_top(params, sy, comp, level), SS.slice_bottom(params, sy, comp, level)):
                for x in range(SS.slice_left(params, sx, comp, level), SS.slice_right(params, sx, comp, level)):
                    out.append((level, orient, y, x))
        return out

    return order, bands


def _rebuild(cap, slices, ld):
    """Transform arrays from the deserialiser's slice lists using the real inverse_quant / dc_prediction."""
    from vc2_conformance.pseudocode.quantization import inverse_quant
    from vc2_conformance.decoder.transform_data_syntax import dc_prediction, initialize_wavelet_data

    params = cap["params"]
    out = {}
    for comp in ("Y", "C1", "C2"):
        out[comp] = initialize_wavelet_data(params, comp)
    qm = cap["quant_matrix"]
    problems = []
    for sl in slices:
        sx, sy, q = sl["_sx"], sl["_sy"], sl["qindex"]
        comps = [("Y", list(sl["y_transform"]))]
        if ld:
            c = list(sl["c_transform"])
            comps += [("C1", c[0::2]), ("C2", c[1::2])]
        else:
            comps += [("C1", list(sl["c1_transform"])), ("C2", list(sl["c2_transform"]))]
        for comp, vals in comps:
            order, bands = _band_order(params, comp)
            pos = order(sx, sy)
            if len(pos) != len(vals):
                problems.append("slice (%d,%d) %s: %d coefficients in description, %d expected" % (sx, sy, comp, len(vals), len(pos)))
                continue
            for (level, orient, y, x), v in zip(pos, vals):
                qi = sym_max(q - qm[level][orient], 0)
                out[comp][level][orient][y][x] = inverse_quant(v, qi)
    if (cap["parse_code"] & 0x28) == 0x08:  # low-delay: DC prediction
        key = "LL" if params["dwt_depth_ho"] == 0 else "L"
        for comp in ("Y", "C1", "C2"):
            if all(v is not None for row in out[comp][0][key] for v in row):
                dc_prediction(out[comp][0][key])
    return out, problems


def _slices_of_picture(units_iter):
    """Yield (kind, header dict, slices or None) for each picture / fragmented picture in a deserialised sequence."""
    cur = None
    for du in units_iter:
        code = du["parse_info"]["parse_code"]
        if "picture_parse" in du:
            pp = du["picture_parse"]
            td = pp["wavelet_transform"]["transform_data"]
            yield {"picture_number": pp["picture_header"]["picture_number"], "tp": pp["wavelet_transform"]["transform_parameters"],
                   "slices": list(td.get("hq_slices", td.get("ld_slices", []))), "ld": "ld_slices" in td, "code": code, "state": td.get("_state")}
        elif "fragment_parse" in du:
            fp = du["fragment_parse"]
            fh = fp["fragment_header"]
            if fh["fragment_slice_count"] == 0:
                cur = {"picture_number": fh["picture_number"], "tp": fp["transform_parameters"], "slices": [], "ld": None, "code": code, "need": None}
            else:
                fd = fp["fragment_data"]
                cur["ld"] = "ld_slices" in fd
                cur["state"] = fd.get("_state")
                cur["slices"].extend(fd.get("hq_slices", fd.get("ld_slices", [])))
                tp = cur["tp"]["slice_parameters"]
                if len(cur["slices"]) == tp["slices_x"] * tp["slices_y"]:
                    yield cur
                    cur = None


def _compare(cells_file_factory, caps, desc, prove, prove_eq):
    pics = []
    codes_des = []
    for seq in desc["sequences"]:
        codes_des += [du["parse_info"]["parse_code"] for du in seq["data_units"]]
        pics += list(_slices_of_picture(seq["data_units"]))
    prove(len(pics) == len(caps), "picture-count", [len(pics), len(caps)])
    for cap, p in zip(caps, pics):
        # the deserialiser's own copy of the derived state (what the viewer and the test-case tooling consume)
        dst = p.get("state")
        if dst is not None:
            for k, v in cap["derived"].items():
                prove_eq(dst.get(k), v, "derived-state:" + k)
            dvp = dst.get("video_parameters")
            if dvp is not None:
                for k, v in cap["video_parameters"].items():
                    prove_eq(dvp.get(k), v, "video-parameter:" + k)
        prove_eq(p["picture_number"], cap["picture_number"], "picture-number")
        tp = p["tp"]
        sp = tp["slice_parameters"]
        prm = cap["params"]
        for k, v in (("wavelet_index", tp["wavelet_index"]), ("dwt_depth", tp["dwt_depth"]), ("slices_x", sp["slices_x"]), ("slices_y", sp["slices_y"])):
            prove_eq(v, prm[k], "transform-parameter:" + k)
        for k in ("slice_prefix_bytes", "slice_size_scaler", "slice_bytes_numerator", "slice_bytes_denominator"):
            if k in sp:
                prove_eq(sp[k], prm[k], "slice-parameter:" + k)
        etp = tp.get("extended_transform_parameters")
        if etp is not None:
            prove_eq(etp.get("wavelet_index_ho", prm["wavelet_index"]) if etp.get("asym_transform_index_flag") else prm["wavelet_index"], prm["wavelet_index_ho"], "wavelet_index_ho")
            prove_eq(etp.get("dwt_depth_ho", 0) if etp.get("asym_transform_flag") else 0, prm["dwt_depth_ho"], "dwt_depth_ho")
        rebuilt, problems = _rebuild(cap, p["slices"], p["ld"])
        for pr in problems:
            prove(False, "coefficient-count", pr)
        for comp, key in (("Y", "y"), ("C1", "c1"), ("C2", "c2")):
            for level, bands in cap[key].items():
                for orient, arr in bands.items():
                    for y, row in enumerate(arr):
                        for x, v in enumerate(row):
                            prove_eq(rebuilt[comp][level][orient][y][x], v, "coefficient %s[%d][%s][%d][%d]" % (comp, level, orient, y, x))
    return codes_des


def build(task):
    from lib.levels import relax_levels

    relax_levels()
    dec.install_resource_bounds()
    dec.install_serdes_bounds()
    caps = _capture_install()
    name, regions = task["args"]
    data, meta = dec.fixture(name)
    codes_expected = [u[1] for u in meta["units"]]

    def h(ctx):
        del caps[:]
        _bits_left_install(lambda bl: ctx.prove(bl >= 0, "bits_left>=0"))
        cells = dec.sym_region(ctx, data, regions)
        cls, st, exc = dec.run_decoder(SymFile(cells))
        if cls[0] == "EXC":
            ctx.fail("unexpected-exception", list(cls))
            return ["EXC"]
        if cls[0] != "ok":
            return ["rejected", cls[1]]
        mine = list(caps)
        try:
            desc = _deser(SymFile(cells))
        except Exception as e:
            ctx.fail("deserialiser-fails-on-accepted-stream", [type(e).__name__, str(e)[:80]])
            return ["deser-exc"]
        codes = _compare(None, mine, desc, lambda c, l, e=None: ctx.prove(c, l, e), lambda a, b, l: ctx.prove_eq(a, b, l))
        ctx.prove([cv_of(c) for c in codes] == codes_expected, "data-unit-codes", [codes_expected])
        return ["accepted", len(mine)]

    return h


def _plain(task, inputs):
    from lib.levels import relax_levels

    relax_levels()
    caps = _capture_install()
    del caps[:]
    name, regions = task["args"]
    data, meta = dec.fixture(name)
    b = dec.bytes_from_inputs(data, inputs)
    bad = []

    def prove(c, l, e=None):
        if not c:
            bad.append((l, e))

    _bits_left_install(lambda bl: prove(bl >= 0, "bits_left>=0"))
    cls, st, exc = dec.run_decoder(io.BytesIO(b))
    if cls[0] != "ok":
        return b, cls, bad
    mine = list(caps)
    try:
        desc = _deser(io.BytesIO(b))
    except Exception as e:
        bad.append(("deserialiser-fails-on-accepted-stream", repr(e)))
        return b, cls, bad
    _compare(None, mine, desc, prove, lambda x, y, l: prove(x == y, l, [x, y]))
    return b, cls, bad


def validate(task, inputs, outcome):
    b, cls, bad = _plain(task, inputs)
    got = ["EXC"] if cls[0] == "EXC" else (["accepted"] if cls[0] == "ok" else ["rejected", cls[1]])
    if list(outcome)[: len(got)] != got:
        return "path predicted %r, plain decoder gives %r on %s" % (outcome, cls, b.hex())
    return None


def replay(task, label, inputs, extra):
    b, cls, bad = _plain(task, inputs)
    if cls[0] == "EXC":
        return {"reproduced": True, "key": "C08:crash:%s" % cls[1], "detail": "%r on %s" % (cls, b.hex())}
    if bad:
        return {"reproduced": True, "key": "C08:%s" % bad[0][0].split(" ")[0], "detail": "%r; stream %s" % (bad[:3], b.hex())}
    return {"reproduced": False, "key": None, "detail": "verdict %r, no difference on %s" % (cls, b.hex())}


def MIN_REACH(outcomes, per_task, tasks):
    import json

    acc = sum(n for k, n in outcomes.items() if json.loads(k)[0] == "accepted")
    if acc < 300:
        return "only %d accepted paths compared" % acc
    return None


def canaries():
    def serdes_hq_length_ignores_scaler_for_c2():
        import vc2_conformance.bitstream.vc2 as V
        import inspect, textwrap

        src = inspect.getsource(V.hq_slice)
        src = src.replace('length = state["slice_size_scaler"] * serdes.uint_lit(', 'length = (1 if component == "c2" else state["slice_size_scaler"]) * serdes.uint_lit(')
        assert 'component == "c2"' in src
        ns = {}
        exec(compile(textwrap.dedent(src), "<canary>", "exec"), V.__dict__, ns)
        V.hq_slice = ns["hq_slice"]

    def reader_past_end_zero_at_3():
        import vc2_conformance.bitstream.io as bio

        orig = bio.BitstreamReader.read_bit

        def read_bit(self):
            if self._bits_remaining is not None and self._bits_remaining == -2:
                self._bits_remaining -= 1
                return 0
            return orig(self)

        bio.BitstreamReader.read_bit = read_bit

    def decoder_quantizer_wrong_for_qindex_9():
        import vc2_conformance.decoder.transform_data_syntax as T

        orig = T.slice_quantizers

        def slice_quantizers(state, qindex):
            orig(state, qindex)
            if qindex == 9:
                top = max(state["quantizer"])
                for o in state["quantizer"][top]:
                    state["quantizer"][top][o] = state["quantizer"][top][o] + 1

        T.slice_quantizers = slice_quantizers

    return [("serdes_hq_length_ignores_scaler_for_c2", serdes_hq_length_ignores_scaler_for_c2),
            ("reader_past_end_zero_at_3", reader_past_end_zero_at_3),
            ("decoder_quantizer_wrong_for_qindex_9", decoder_quantizer_wrong_for_qindex_9)]
