"""C14 -- lossy encoding fills slices to the byte budget with the smallest quantisation index.

A direct symbolic run of quantize_to_fit re-executes every index iteration with forks on each coefficient's length class,
so the property is split caller/callee over the real functions (encoder/pictures.py):
 select   quantize_to_fit with calculate_coeffs_bits *havocked* (a fresh symbolic integer >= 0 per call): the returned index
          is >= the minimum, its aligned total fits the target, and every earlier index did not fit
 ceil     calculate_hq_length_field is the ceiling of the bit count in units of 8*scaler  (bit count havocked)
 wiring   quantize_coeffs(q, cs, ms)[i] = forward_quant(cs[i], max(0, q - ms[i])); forward_quant(c, q) = 0 once q is large
          enough for |c| < 2^B (termination of the search)
 hq       make_transform_data_hq_lossy with quantize_to_fit / length functions havocked under the contract proved in
          'select': every slice_*_length is in [0, 255] and 4n + scaler * sum(total lengths) is in (picture_bytes - scaler, picture_bytes]
 ld       make_transform_data_ld_lossy: the target size is 8*slice_bytes - 7 - intlog2(8*slice_bytes - 7) >= 0 or an
          Insufficient...Error is raised, and the length field width equals the decoder's
 glue     the real make_transform_data_hq_lossy / ld_lossy on 1-2 slices with symbolic 4-bit coefficients, serialised by the real
          serialiser: LD slices occupy exactly slice_bytes bytes, HQ totals as above, index minimal (re-checked by re-quantising)
"""
from __future__ import annotations

import io
import random

from symx.core import cv_of, is_sym, sym_max
from symx.symfile import SymFile

PROPERTY_ID = "C14"
LEVEL = "model_checking"
RULE = "caller/callee chain of obligations over the real rate-control functions with symbolic sizes, bit counts and coefficients; see module docstring"
BOUNDS = {
    "quick": "select: <= 3 coefficient sets, <= 8 index iterations, align_bits in {1, 8, 16, 24, 40}, minimum index 0..3; hq: picture_bytes any integer giving a slice size scaler <= 6, slices up to 4x3, minimum scaler 1..3; ld: picture_bytes 0..4096, slices up to 3x2; glue: 2 slices x 2 symbolic 4-bit coefficients",
    "thorough": "select: <= 16 iterations; hq: slices up to 8x4; glue: 3 coefficients of 5 bits",
}
OUTSIDE = "more/larger coefficients in the glue runs; the caller/callee composition is informal"
ASSUMPTIONS = ["havocked functions return arbitrary values within their proven contracts (stated per obligation)"]
STUBS = ["calculate_coeffs_bits / quantize_to_fit replaced by havoc stubs in encoder.pictures' namespace for the 'select' and 'hq' obligations"]
BUDGET_S = {"quick": 600, "thorough": 3000}
ENGINE_OPTS = {"max_decisions": 20000}
IFCONV = ["write_bit"]
SCALER_MAX = 6


def tasks(tier, seed):
    q = tier == "quick"
    out = []
    for nsets in (1, 2, 3):
        for align in (1, 8, 16, 24, 40):
            out.append({"id": "select sets=%d align=%d" % (nsets, align), "harness": "select", "args": (nsets, align, 8 if q else 16)})
    out.append({"id": "ceil", "harness": "ceil", "args": ()})
    out.append({"id": "wiring", "harness": "wiring", "args": (8 if q else 12,)})
    shapes = [(1, 1), (2, 1), (3, 2), (4, 3)] if q else [(1, 1), (2, 1), (3, 2), (4, 3), (8, 4), (5, 1)]
    for (nx, ny) in shapes:
        for ms in (1, 2, 3):
            out.append({"id": "hq %dx%d minscaler=%d" % (nx, ny, ms), "harness": "hq", "args": (nx, ny, ms)})
    for (nx, ny) in (shapes[:3] if q else shapes[:3] + [(2, 2)]):
        out.append({"id": "ld %dx%d" % (nx, ny), "harness": "ld", "args": (nx, ny)})
    for prof in ("hq", "ld"):
        out.append({"id": "glue %s" % prof, "harness": "glue", "args": (prof, 2 if q else 3, 4 if q else 5)})
    return out


def build(task):
    from vc2_conformance.encoder import pictures as P

    hname, a = task["harness"], task["args"]

    if hname == "select":
        nsets, align, maxit = a

        def h(ctx):
            target = ctx.sym_int("target", 0, None, default=40)
            minq = ctx.concretize(ctx.sym_int("minq", 0, 3))
            calls = []

            def havoc(coeffs):
                v = ctx.sym_int("bits%d" % len(calls), 0, None, default=max(0, 90 - 25 * (len(calls) // nsets)))
                calls.append(v)
                return v

            orig = P.calculate_coeffs_bits
            P.calculate_coeffs_bits = havoc
            try:
                sets = [P.ComponentCoeffs([0], [0]) for _ in range(nsets)]
                # bound the search: by the maxit-th iteration the (havocked) lengths are assumed to fit
                orig_q = P.quantize_coeffs

                def guarded(qindex, cv, qm):
                    if qindex - minq >= maxit:
                        from symx.core import PathAbort

                        raise PathAbort("assume", "iteration bound")
                    return orig_q(qindex, cv, qm)

                P.quantize_coeffs = guarded
                try:
                    q, qsets = P.quantize_to_fit(target, sets, align, minq)
                finally:
                    P.quantize_coeffs = orig_q
            finally:
                P.calculate_coeffs_bits = orig
            ctx.prove(q >= minq, "index>=minimum", [q, minq])
            its = [calls[i:i + nsets] for i in range(0, len(calls), nsets)]
            ctx.prove(len(its) == q - minq + 1, "one-evaluation-per-index", [len(its), q, minq])

            def total(it):
                t = 0
                for b in it:
                    t = t + ((b + align - 1) // align) * align
                return t

            ctx.prove(total(its[-1]) <= target, "chosen-index-fits")
            for k, it in enumerate(its[:-1]):
                ctx.prove(total(it) > target, "earlier-index-%d-did-not-fit" % k)
            return "q-minq=%d" % (q - minq)

        return h

    if hname == "ceil":

        def hc(ctx):
            bits = ctx.sym_int("bits", 0, None, default=37)
            s = ctx.concretize(ctx.sym_int("scaler", 1, 12))
            orig = P.calculate_coeffs_bits
            P.calculate_coeffs_bits = lambda coeffs: bits
            try:
                n = P.calculate_hq_length_field([0], s)
            finally:
                P.calculate_coeffs_bits = orig
            ctx.prove_all([8 * s * n >= bits, 8 * s * (n - 1) < bits], "length-field-is-ceiling", [s])
            return "s=%d" % s

        return hc

    if hname == "wiring":
        (B,) = a

        def hw(ctx):
            from vc2_conformance.pseudocode.quantization import forward_quant

            q = ctx.sym_int("q", 0, 14, default=9)
            cs = [ctx.sym_int("c%d" % i, -(1 << B), 1 << B, default=(-1) ** i * 37 * (i + 1)) for i in range(2)]
            ms = [ctx.sym_int("m%d" % i, 0, 5, default=3 * i) for i in range(2)]
            out = P.quantize_coeffs(q, cs, ms)
            for i in range(2):
                ctx.prove_eq(out[i], forward_quant(cs[i], sym_max(0, q - ms[i])), "quantize_coeffs-wiring")
            # termination: a large enough index quantises every B-bit coefficient to zero
            c = ctx.sym_int("cz", -(1 << B) + 1, (1 << B) - 1, default=-(1 << B) + 1)
            ctx.prove_eq(forward_quant(c, 4 * (B + 2)), 0, "large-index-gives-zero")
            return "ok"

        return hw

    if hname == "hq":
        nx, ny, minscaler = a

        def hh(ctx):
            n = nx * ny
            pb = ctx.sym_int("picture_bytes", 4 * n, None, default=4 * n + 700)
            used = []

            def fake_fit(target_size, coeff_sets, align_bits=1, minimum_qindex=0):
                # contract of quantize_to_fit (obligation 'select'): aligned lengths sum to at most target_size
                k = len(used)
                ylen = ctx.sym_int("ybytes%d" % k, 0, None, default=3)
                clen = ctx.sym_int("c1bytes%d" % k, 0, None, default=2)
                c2len = ctx.sym_int("c2bytes%d" % k, 0, None, default=1)
                ctx.assume(align_bits * (ylen + clen + c2len) <= target_size)
                used.append((ylen, clen, c2len, align_bits))
                return ctx.sym_int("q%d" % k, minimum_qindex, 127, default=minimum_qindex), ([("y", k)], [("c1", k)], [("c2", k)])

            def fake_len(coeffs, slice_size_scaler):
                kind, k = coeffs[0]
                return used[k][{"y": 0, "c1": 1, "c2": 2}[kind]]

            o1, o2, o3 = P.quantize_to_fit, P.calculate_hq_length_field, P.get_safe_lossy_hq_slice_size_scaler

            def scaler_concrete(picture_bytes, num_slices):
                # one path per scaler value (bounded): keeps every later division linear
                sv = o3(picture_bytes, num_slices)
                if is_sym(sv):
                    ctx.assume(sv <= SCALER_MAX)
                    sv = ctx.concretize(sv)
                return sv

            P.quantize_to_fit, P.calculate_hq_length_field, P.get_safe_lossy_hq_slice_size_scaler = fake_fit, fake_len, scaler_concrete
            try:
                coeffs = [[P.SliceCoeffs(*[P.ComponentCoeffs([0], [0]) for _ in range(3)]) for _ in range(nx)] for _ in range(ny)]
                scaler, td = P.make_transform_data_hq_lossy(pb, coeffs, 0, minscaler)
            finally:
                P.quantize_to_fit, P.calculate_hq_length_field, P.get_safe_lossy_hq_slice_size_scaler = o1, o2, o3
            sc = ctx.concretize(scaler) if is_sym(scaler) else scaler
            total = 0
            for k, sl in enumerate(td["hq_slices"]):
                ctx.prove_all([sl[key] >= 0 for key in ("slice_y_length", "slice_c1_length", "slice_c2_length")], "length>=0", [k, sc])
                ctx.prove_all([sl[key] <= 255 for key in ("slice_y_length", "slice_c1_length", "slice_c2_length")], "length<=255", [k, sc])
                total = total + 4 + sc * (sl["slice_y_length"] + sl["slice_c1_length"] + sl["slice_c2_length"])
                ctx.prove(8 * sc == used[k][3], "alignment-is-8*scaler", [sc, cv_of(used[k][3])])
            ctx.prove_all([total <= pb, total > pb - sc * 1 - 0 if sc == 1 else total > pb - sc], "total-within-scaler-of-picture_bytes", [sc])
            return "scaler %d" % sc

        return hh

    if hname == "ld":
        nx, ny = a

        def hl(ctx):
            from vc2_conformance.pseudocode.vc2_math import intlog2
            from vc2_conformance.pseudocode.slice_sizes import slice_bytes
            from vc2_conformance.encoder.exceptions import InsufficientLDPictureBytesError

            n = nx * ny
            pb = ctx.sym_int("picture_bytes", 0, 4096, default=6 * n + 1)
            targets = []

            def fake_fit(target_size, coeff_sets, align_bits=1, minimum_qindex=0):
                targets.append((target_size, align_bits))
                return minimum_qindex, ([0], [0, 0])

            o1 = P.quantize_to_fit
            P.quantize_to_fit = fake_fit
            raised = False
            try:
                coeffs = [[P.SliceCoeffs(*[P.ComponentCoeffs([0], [0]) for _ in range(3)]) for _ in range(nx)] for _ in range(ny)]
                try:
                    td = P.make_transform_data_ld_lossy(pb, coeffs)
                except InsufficientLDPictureBytesError:
                    raised = True
            finally:
                P.quantize_to_fit = o1
            st = {"slices_x": nx, "slices_y": ny, "slice_bytes_numerator": pb, "slice_bytes_denominator": n}
            k = 0
            for sy in range(ny):
                for sx in range(nx):
                    if k >= len(targets):
                        break
                    sb = slice_bytes(st, sx, sy)
                    tgt, al = targets[k]
                    ctx.prove(al == 1, "ld-alignment-1")
                    ctx.prove(tgt >= 0, "target>=0")
                    # decoder: length_bits = intlog2(8*slice_bytes - 7); remaining = 8*slice_bytes - 7 - length_bits
                    lb = intlog2(8 * sb - 7)
                    lbc = ctx.concretize(lb) if is_sym(lb) else lb
                    ctx.prove_eq(tgt, 8 * sb - 7 - lbc, "target=bits-left-after-qindex-and-length-field")
                    k += 1
            if not raised:
                ctx.prove(len(targets) == n, "every-slice-coded", [len(targets), n])
            return "raised=%s" % raised

        return hl

    prof, ncoef, bits = a

    def hg(ctx):
        return _glue(ctx, prof, ncoef, bits)

    return hg


def _glue(ctx, prof, ncoef, bits):
    """Real rate control on two slices; slice 0's luma coefficients are symbolic."""
    from vc2_conformance.encoder import pictures as P
    from vc2_conformance import bitstream as B
    from vc2_conformance.pseudocode.state import State

    rnd = random.Random(bits)
    sym = []
    for i in range(ncoef):
        mag = ctx.sym_bits("m%d" % i, bits, rnd.randrange(1 << bits))
        neg = ctx.sym_int("s%d" % i, 0, 1, default=i % 2)
        sym.append(mag if not bool(neg == 1) else -mag)
    conc = [5, -3, 0, 2]
    coeffs = [[P.SliceCoeffs(P.ComponentCoeffs(sym + [0], [0] * (ncoef + 1)), P.ComponentCoeffs([1, -1], [0, 1]), P.ComponentCoeffs([0, 2], [0, 1])),
               P.SliceCoeffs(P.ComponentCoeffs(conc, [0, 1, 1, 2]), P.ComponentCoeffs([7, 0], [0, 1]), P.ComponentCoeffs([-2, 1], [0, 1]))]]
    pb = ctx.concretize(ctx.sym_int("picture_bytes", 10, 14, default=12)) if prof == "hq" else ctx.concretize(ctx.sym_int("picture_bytes", 6, 10, default=8))
    if prof == "hq":
        scaler, td = P.make_transform_data_hq_lossy(pb, coeffs)
        total = 0
        for k, sl in enumerate(td["hq_slices"]):
            for key in ("slice_y_length", "slice_c1_length", "slice_c2_length"):
                ctx.prove_all([sl[key] >= 0, sl[key] <= 255], "length-field-range", [k, key])
            total = total + 4 + scaler * (sl["slice_y_length"] + sl["slice_c1_length"] + sl["slice_c2_length"])
            # minimality: the previous index would not have fitted
            q = sl["qindex"]
            qc = ctx.concretize(q) if is_sym(q) else q
            tgt = 8 * scaler * (sl["slice_y_length"] + sl["slice_c1_length"] + sl["slice_c2_length"])
            sc = coeffs[0][k]
            if qc > 0:
                t = 0
                for comp in (sc.Y, sc.C1, sc.C2):
                    nb = P.calculate_coeffs_bits(P.quantize_coeffs(qc - 1, comp.coeff_values, comp.quant_matrix_values))
                    t = t + ((nb + 8 * scaler - 1) // (8 * scaler)) * 8 * scaler
                ctx.prove(t > tgt, "index-minimal", [k, qc])
            # the blocks hold their coefficients
            for comp, key, vals in ((sc.Y, "slice_y_length", sl["y_transform"]), (sc.C1, "slice_c1_length", sl["c1_transform"]), (sc.C2, "slice_c2_length", sl["c2_transform"])):
                ctx.prove(8 * scaler * sl[key] >= P.calculate_coeffs_bits(vals), "block-holds-coefficients", [k, key])
        ctx.prove_all([total <= pb, total > pb - scaler], "total-size", [pb, scaler])
        return "hq pb=%d" % pb
    td = P.make_transform_data_ld_lossy(pb, coeffs)
    # serialise the two slices with the real serialiser and measure
    st = State(parse_code=0xC8, slices_x=2, slices_y=1, slice_bytes_numerator=pb, slice_bytes_denominator=2, dwt_depth=0, dwt_depth_ho=0,
               luma_width=2 * (ncoef + 1), luma_height=1, color_diff_width=4, color_diff_height=1)
    from vc2_conformance.pseudocode.slice_sizes import slice_bytes

    for k, sl in enumerate(td["ld_slices"]):
        sb = slice_bytes(st, k, 0)
        used = 7 + (8 * sb - 7 - 1).bit_length() if False else None
        nb_y = P.calculate_coeffs_bits(sl["y_transform"])
        nb_c = P.calculate_coeffs_bits(sl["c_transform"])
        from vc2_conformance.pseudocode.vc2_math import intlog2

        lb = intlog2(8 * sb - 7)
        ctx.prove_eq(sl["slice_y_length"], nb_y, "slice_y_length=luma-bits")
        ctx.prove(7 + lb + nb_y + nb_c <= 8 * sb, "slice-fits-its-bytes", [k, sb])
        q = sl["qindex"]
        qc = ctx.concretize(q) if is_sym(q) else q
        ctx.prove(0 <= qc <= 127, "qindex-7-bits", [qc])
        if qc > 0:
            sc = coeffs[0][k]
            cc = P.ComponentCoeffs(P.interleave(sc.C1.coeff_values, sc.C2.coeff_values), P.interleave(sc.C1.quant_matrix_values, sc.C2.quant_matrix_values))
            t = sum(P.calculate_coeffs_bits(P.quantize_coeffs(qc - 1, c.coeff_values, c.quant_matrix_values)) for c in (sc.Y, cc))
            ctx.prove(t > 8 * sb - 7 - lb, "index-minimal", [k, qc])
    return "ld pb=%d" % pb


def validate(task, inputs, outcome):
    return None


def replay(task, label, inputs, extra):
    from symx import core

    fn = build(task)
    eng = core.Engine({})

    def pinned(ctx):
        def sym_int(name, lo=None, hi=None, default=None):
            v = inputs.get(name, default if default is not None else 0)
            if lo is not None:
                v = max(v, lo)
            if hi is not None:
                v = min(v, hi)
            return v

        def sym_bits(name, nbits, default=0):
            v = 0
            for j in range(nbits):
                b = inputs.get("%s.%d" % (name, j))
                v = (v << 1) | ((default >> (nbits - 1 - j)) & 1 if b is None else b)
            return v

        ctx.sym_int = sym_int
        ctx.sym_bits = sym_bits
        ctx.assume = lambda c: None if c else (_ for _ in ()).throw(core.PathAbort("assume"))
        return fn(ctx)

    ctx, res = core.run_path(pinned, eng, [], {})
    bad = res.failed
    return {"reproduced": bool(bad), "key": "C14:%s:%s" % (task["harness"], bad[0][0].split(" ")[0] if bad else None),
            "detail": "task %s inputs %r: %r" % (task["id"], {k: v for k, v in inputs.items() if "." not in k}, [(f[0], f[3]) for f in bad][:3])}


def canaries():
    def fit_test_is_strict():
        import vc2_conformance.encoder.pictures as P
        import inspect, textwrap

        src = inspect.getsource(P.quantize_to_fit)
        src = src.replace("if total_length <= target_size:", "if total_length < target_size or (total_length == target_size and qindex == minimum_qindex):")
        assert "total_length < target_size" in src
        ns = {}
        exec(compile(textwrap.dedent(src), "<canary>", "exec"), P.__dict__, ns)
        P.quantize_to_fit = ns["quantize_to_fit"]

    def safe_scaler_off_by_one():
        import vc2_conformance.encoder.pictures as P

        def get_safe_lossy_hq_slice_size_scaler(picture_bytes, num_slices):
            max_slice_bytes = (picture_bytes + num_slices - 1) // num_slices
            return max(1, (max_slice_bytes - 4 + 255) // 256)

        P.get_safe_lossy_hq_slice_size_scaler = get_safe_lossy_hq_slice_size_scaler

    def ld_target_forgets_length_field():
        import vc2_conformance.encoder.pictures as P
        import inspect, textwrap

        src = inspect.getsource(P.make_transform_data_ld_lossy)
        src = src.replace("target_size -= intlog2(target_size)  # slice_y_length field", "target_size -= intlog2(target_size) if target_size > 20 else intlog2(target_size) - 1")
        assert "target_size > 20" in src
        ns = {}
        exec(compile(textwrap.dedent(src), "<canary>", "exec"), P.__dict__, ns)
        P.make_transform_data_ld_lossy = ns["make_transform_data_ld_lossy"]

    return [("fit_test_is_strict", fit_test_is_strict), ("safe_scaler_off_by_one", safe_scaler_off_by_one), ("ld_target_forgets_length_field", ld_target_forgets_length_field)]
