"""C28 -- codec-features CSV reading either succeeds in-domain or explains.

Real code: codec_features.read_codec_features_csv, read_dict_list_csv, pop, parse_int_enum, parse_int_at_least, parse_bool,
parse_quantization_matrix.

 * CrossHair (second engine, symbolic ``str``): contracts in checks/c28_contracts.py over the cell parsers on every string of
   a small alphabet/length: result in the documented domain or ValueError, nothing else.  "Confirmed over all paths" is
   required; anything else is inconclusive; a counterexample is replayed on the plain function.
 * symx: read_codec_features_csv on a valid base table in which one cell is replaced by (a) a *symbolic numeral* (a str-like
   object standing for the decimal rendering of a symbolic integer; ``int`` is shadowed in the module namespace so that it
   yields the symbolic value) or (b) a textual mutation chosen by a selector (empty, 'default', malformed, out-of-range,
   missing row, extra row, duplicate name); the result must lie in the documented domains or InvalidCodecFeaturesError must
   be raised -- nothing else.  Textual mutations go through the real csv module.
"""
from __future__ import annotations

import io
import os
import re
import subprocess
import sys

from symx.core import cv_of, is_sym, SymInt

PROPERTY_ID = "C28"
LEVEL = "model_checking"
RULE = (
    "(a) CrossHair contracts over parse_int_at_least / parse_int_enum on all strings of <= 2-3 characters over a 6-7 letter alphabet; "
    "(b) every field of a valid 2-column table x {symbolic integer cell in [-3, 300], 9 textual mutations, parse_bool and quantisation-"
    "matrix cells over all strings of a small alphabet (selector-enumerated)}: domains of the returned CodecFeatures or InvalidCodecFeaturesError"
)
BOUNDS = {"quick": "symbolic integer cells in [-3, 300]; bool cells: all strings <= 3 over 10 letters; matrix cells: all strings <= 5 over {0, 1, space, -}",
          "thorough": "integer cells in [-3, 5000]; bool cells <= 4 letters; matrix cells <= 6"}
OUTSIDE = "CSV tokenisation itself (the csv module is C code): e.g. a bare carriage return inside a line handed over by a custom iterable raises _csv.Error; not reachable by this technique"
ASSUMPTIONS = ["``int`` is shadowed in vc2_conformance.codec_features' namespace by a version that returns the symbolic value of a symbolic numeral",
               "csv.reader is replaced by an identity over pre-tokenised rows for the symbolic-numeral cases only"]
STUBS = ["int shadow and csv.reader identity in vc2_conformance.codec_features (symbolic numeral cases)"]
BUDGET_S = {"quick": 600, "thorough": 2400}
IFCONV = False
REPLAYS_PER_LABEL = 2

BASE = [
    ("name", "colA"), ("level", "0"), ("profile", "high_quality"), ("base_video_format", "hd1080p_50"), ("picture_coding_mode", "0"),
    ("frame_width", "8"), ("frame_height", "4"), ("color_diff_format_index", "color_4_4_4"), ("source_sampling", "progressive"),
    ("top_field_first", "TRUE"), ("frame_rate_numer", "1"), ("frame_rate_denom", "1"), ("pixel_aspect_ratio_numer", "1"),
    ("pixel_aspect_ratio_denom", "1"), ("clean_width", "default"), ("clean_height", "4"), ("left_offset", "0"), ("top_offset", "0"),
    ("luma_offset", "0"), ("luma_excursion", "255"), ("color_diff_offset", "128"), ("color_diff_excursion", "255"),
    ("color_primaries_index", "hdtv"), ("color_matrix_index", "hdtv"), ("transfer_function_index", "tv_gamma"),
    ("wavelet_index", "haar_with_shift"), ("wavelet_index_ho", "4"), ("dwt_depth", "1"), ("dwt_depth_ho", "0"),
    ("slices_x", "2"), ("slices_y", "1"), ("lossless", "FALSE"), ("picture_bytes", "24"), ("fragment_slice_count", "0"),
    ("quantization_matrix", "default"),
]
SECOND = {"name": "colB", "profile": "low_delay", "lossless": "TRUE", "picture_bytes": "", "quantization_matrix": "1 2 2 3"}
INT_MIN = {"dwt_depth": 0, "dwt_depth_ho": 0, "slices_x": 1, "slices_y": 1, "fragment_slice_count": 0, "frame_width": 1, "frame_height": 1,
           "frame_rate_numer": 1, "frame_rate_denom": 1, "pixel_aspect_ratio_numer": 1, "pixel_aspect_ratio_denom": 1, "clean_width": 0,
           "clean_height": 0, "left_offset": 0, "top_offset": 0, "luma_offset": 0, "luma_excursion": 1, "color_diff_offset": 0,
           "color_diff_excursion": 1, "picture_bytes": 1}
ENUMS = ["level", "profile", "picture_coding_mode", "wavelet_index", "wavelet_index_ho", "base_video_format", "color_diff_format_index",
         "source_sampling", "color_primaries_index", "color_matrix_index", "transfer_function_index"]
BOOLS = ["lossless", "top_field_first"]
TEXT_MUTATIONS = ["", "default", "x1", "-1", "999999", " 1 ", "1.5", "TRUE", "0x10"]


class SymNumeral(object):
    """str-like cell standing for the decimal rendering of a symbolic integer."""

    def __init__(self, value):
        self.value = value

    def strip(self, *a):
        return self

    def lower(self):
        return self

    def __eq__(self, o):
        return False if isinstance(o, str) else NotImplemented

    def __ne__(self, o):
        return True

    def __hash__(self):
        return id(self)

    def __bool__(self):
        return True

    def split(self, *a):
        return [self]

    def __format__(self, spec):
        from symx.core import cur

        return format(cur().concretize(self.value), spec)

    __str__ = lambda self: format(self, "")
    __repr__ = __str__


def _install_int_shadow():
    import builtins
    import vc2_conformance.codec_features as CF

    if getattr(CF, "_symx_int", False):
        return

    def sym_int(x=0, *a):
        if isinstance(x, SymNumeral):
            return x.value
        return builtins.int(x, *a)

    CF.int = sym_int
    CF._symx_int = True


def tasks(tier, seed):
    out = []
    hi = 300 if tier == "quick" else 5000
    names = [k for k, _ in BASE]
    for f in names:
        if f in INT_MIN or f in ENUMS:
            out.append({"id": "numeral %s" % f, "harness": "numeral", "args": (f, hi if f in INT_MIN else 70)})
        out.append({"id": "text %s" % f, "harness": "text", "args": (f,)})
    for f in BOOLS:
        out.append({"id": "boolcell %s" % f, "harness": "boolcell", "args": (f, 3 if tier == "quick" else 4)})
    out.append({"id": "matrixcell", "harness": "matrixcell", "args": (5 if tier == "quick" else 6,)})
    out.append({"id": "structure", "harness": "structure", "args": ()})
    for fn in ("contract_parse_int_at_least", "contract_parse_int_enum_profile", "contract_parse_int_enum_wavelet"):
        out.append({"id": "crosshair %s" % fn, "harness": "crosshair", "args": (fn, 150 if tier == "quick" else 400)})
    return out


def _rows(col1, col2=None, extra_rows=()):
    rows = [["# codec features", "", ""], []]
    keys = [k for k, _ in BASE]
    for k in keys:
        r = [k, col1.get(k, "")]
        if col2 is not None:
            r.append(col2.get(k, ""))
        rows.append(r)
    for r in extra_rows:
        rows.append(list(r))
    return rows


def _check_result(res, fail):
    """Documented domains of a successful read."""
    from vc2_conformance.codec_features import CodecFeatures
    import vc2_data_tables as T

    enums = {"level": T.Levels, "profile": T.Profiles, "picture_coding_mode": T.PictureCodingModes, "wavelet_index": T.WaveletFilters,
             "wavelet_index_ho": T.WaveletFilters}
    vp_enums = {"color_diff_format_index": T.ColorDifferenceSamplingFormats, "source_sampling": T.SourceSamplingModes,
                "color_primaries_index": T.PresetColorPrimaries, "color_matrix_index": T.PresetColorMatrices, "transfer_function_index": T.PresetTransferFunctions}
    if len(set(res.keys())) != len(res):
        fail("duplicate-names", list(res))
    for name, cf in res.items():
        if cf["name"] != name:
            fail("name-mismatch", [name, cf["name"]])
        for k, E in enums.items():
            if not isinstance(cf[k], E):
                fail("enum-domain", [k, repr(cf[k])])
        for k, E in vp_enums.items():
            if not isinstance(cf["video_parameters"][k], E):
                fail("enum-domain", [k, repr(cf["video_parameters"][k])])
        for k, m in INT_MIN.items():
            if k == "picture_bytes":
                continue
            v = cf[k] if k in cf else cf["video_parameters"][k]
            ok = (v >= m)
            if is_sym(ok):
                from symx.core import cur
                if not cur().prove(ok, "integer-below-minimum %s" % k):
                    pass
            elif not ok or isinstance(v, bool):
                fail("integer-below-minimum", [k, v])
        if not isinstance(cf["lossless"], bool) or not isinstance(cf["video_parameters"]["top_field_first"], bool):
            fail("bool-domain", [cf["lossless"]])
        if cf["lossless"]:
            if cf["picture_bytes"] is not None:
                fail("picture_bytes-present-for-lossless", [cf["picture_bytes"]])
        else:
            pb = cf["picture_bytes"]
            if pb is None:
                fail("picture_bytes-missing-for-lossy", [])
            else:
                ok = pb >= 1
                if is_sym(ok):
                    from symx.core import cur
                    cur().prove(ok, "integer-below-minimum picture_bytes")
                elif not ok:
                    fail("integer-below-minimum", ["picture_bytes", pb])
        qm = cf["quantization_matrix"]
        if qm is not None:
            d, dh = cv_of(cf["dwt_depth"]), cv_of(cf["dwt_depth_ho"])
            want = {0: ["LL"] if dh == 0 else ["L"]}
            for lv in range(1, dh + 1):
                want[lv] = ["H"]
            for lv in range(dh + 1, d + dh + 1):
                want[lv] = ["HH", "HL", "LH"]
            if sorted(qm) != sorted(want) or any(sorted(qm[l]) != want[l] for l in want):
                fail("quantisation-matrix-shape", [d, dh, repr(qm)])
            elif not all(isinstance(v, int) and not isinstance(v, bool) for b in qm.values() for v in b.values()):
                fail("quantisation-matrix-values", [repr(qm)])


def _read(rows_or_text, stub_reader):
    import vc2_conformance.codec_features as CF

    if stub_reader:
        orig = CF.csv.reader
        CF.csv = type("csvstub", (), {"reader": staticmethod(lambda f: iter(f))})
        try:
            return CF.read_codec_features_csv(rows_or_text)
        finally:
            import csv as realcsv

            CF.csv = realcsv
    return CF.read_codec_features_csv(io.StringIO(rows_or_text))


def _to_text(rows):
    import csv

    f = io.StringIO()
    w = csv.writer(f)
    for r in rows:
        w.writerow(r)
    return f.getvalue()


def _judge(run, fail):
    from vc2_conformance.codec_features import InvalidCodecFeaturesError

    try:
        res = run()
    except InvalidCodecFeaturesError:
        return "invalid"
    except Exception as e:  # noqa
        fail("unexpected-exception", [type(e).__name__, str(e)[:100]])
        return "exc"
    _check_result(res, fail)
    return "ok"


def _strings(alphabet, maxlen, choose):
    n = choose("len", maxlen + 1)
    return "".join(alphabet[choose("c%d" % i, len(alphabet))] for i in range(n))


def build(task):
    hname, a = task["harness"], task["args"]
    base = dict(BASE)
    if hname == "numeral":
        field, hi = a

        def h(ctx):
            _install_int_shadow()
            v = ctx.sym_int("cell", -3, hi, default=1)
            col = dict(base)
            col[field] = SymNumeral(v)
            return _judge(lambda: _read(_rows(col), True), lambda l, e: ctx.fail(l, [field, e]))

        return h
    if hname in ("text", "boolcell", "matrixcell", "structure"):

        def ht(ctx):
            choose = lambda nm, n: ctx.concretize(ctx.sym_int(nm, 0, n - 1))
            rows, desc = _text_case(hname, a, choose)
            return _judge(lambda: _read(_to_text(rows), False), lambda l, e: ctx.fail(l, [desc, e]))

        return ht

    fn, timeout = a

    def hc(ctx):
        st, detail = _crosshair(fn, timeout)
        if st == "counterexample":
            ctx.fail("crosshair-counterexample", [fn, detail])
        elif st != "confirmed":
            ctx.nonexhaustive = "crosshair: %s (%s)" % (st, detail[:100])
        return "crosshair %s" % st

    return hc


def _text_case(hname, a, choose):
    base = dict(BASE)
    if hname == "text":
        (field,) = a
        k = choose("mutation", len(TEXT_MUTATIONS) + 2)
        col = dict(base)
        rows = None
        if k < len(TEXT_MUTATIONS):
            col[field] = TEXT_MUTATIONS[k]
            desc = "%s = %r" % (field, TEXT_MUTATIONS[k])
        elif k == len(TEXT_MUTATIONS):
            rows = [r for r in _rows(col) if not (r and r[0] == field)]
            desc = "row %s removed" % field
        else:
            rows = _rows(col) + [[field, "1"]]
            desc = "row %s repeated" % field
        return (rows if rows is not None else _rows(col, dict(base, **SECOND))), desc
    if hname == "boolcell":
        field, n = a
        s = _strings("01tTfFyneo", n, choose)
        return _rows(dict(base, **{field: s})), "%s = %r" % (field, s)
    if hname == "matrixcell":
        (n,) = a
        s = _strings("01 -", n, choose)
        d = choose("depth", 2)
        dh = choose("depth_ho", 2)
        return _rows(dict(base, quantization_matrix=s, dwt_depth=str(d), dwt_depth_ho=str(dh))), "matrix %r depths %d/%d" % (s, d, dh)
    k = choose("structure", 6)
    col2 = dict(base, **SECOND)
    if k == 0:
        col2["name"] = "colA"
        return _rows(base, col2), "duplicate names"
    if k == 1:
        return _rows(base, col2, [["unknown_row", "1", "2"]]), "extra row"
    if k == 2:
        return _rows(base, {}), "empty second column"
    if k == 3:
        c = dict(col2)
        c.pop("name")
        return _rows(base, c), "second column without name"
    if k == 4:
        return _rows(base, dict(col2, picture_bytes="10")), "picture_bytes given for lossless"
    return _rows(base, col2), "two valid columns"


_CH = {}


def _crosshair(fn, timeout):
    if fn in _CH:
        return _CH[fn]
    path = os.path.join(os.path.dirname(os.path.abspath(__file__)), "c28_contracts.py")
    ln = [i for i, l in enumerate(open(path), 1) if l.startswith("def %s" % fn)][0] + 1
    try:
        r = subprocess.run([sys.executable, "-m", "crosshair", "check", "--report_all", "--per_condition_timeout", str(timeout), "%s:%d" % (path, ln)],
                           capture_output=True, text=True, timeout=timeout * 2 + 60, env=dict(os.environ, PYTHONPATH=os.path.dirname(os.path.dirname(path))))
        out = (r.stdout + r.stderr).strip()
    except subprocess.TimeoutExpired:
        out = "timeout"
    if "Confirmed over all paths" in out:
        res = ("confirmed", out[-200:])
    elif "error:" in out:
        res = ("counterexample", out[-400:])
    else:
        res = ("not-confirmed", out[-200:])
    _CH[fn] = res
    return res


def validate(task, inputs, outcome):
    return None


def replay(task, label, inputs, extra):
    bad = []
    hname, a = task["harness"], task["args"]
    if hname == "crosshair":
        st, detail = _crosshair(a[0], a[1])
        return {"reproduced": st == "counterexample", "key": "C28:crosshair:%s" % a[0], "detail": detail}
    if hname == "numeral":
        field, hi = a
        col = dict(BASE)
        col[field] = str(inputs.get("cell", 1))
        rows, desc = _rows(col), "%s = %s" % (field, col[field])
    else:
        rows, desc = _text_case(hname, a, lambda nm, n: inputs.get(nm, 0))
    _judge(lambda: _read(_to_text(rows), False), lambda l, e: bad.append((l, e)))
    return {"reproduced": bool(bad), "key": "C28:%s" % (bad[0][0] if bad else None), "detail": "%s: %r" % (desc, bad[:2])}


def canaries():
    def minimum_not_enforced_for_slices_y():
        import vc2_conformance.codec_features as CF

        orig = CF.parse_int_at_least

        def parse_int_at_least(minimum, value):
            v = getattr(CF, "int", int)(value)
            if v < minimum and not (minimum == 1 and v == 0):
                raise ValueError("{} < {}".format(v, minimum))
            return v

        CF.parse_int_at_least = parse_int_at_least

    def bool_accepts_prefix():
        import vc2_conformance.codec_features as CF

        def parse_bool(value):
            lv = value.lower()
            if lv in ("1", "true", "t", "y", "yes"):
                return True
            if lv in ("0", "false", "f", "n", "no"):
                return False
            if lv == "on":
                return value
            raise ValueError("{} is not a valid boolean".format(value))

        CF.parse_bool = parse_bool

    def matrix_short_list_accepted_for_horizontal_only():
        import vc2_conformance.codec_features as CF

        orig = CF.parse_quantization_matrix

        def parse_quantization_matrix(dwt_depth, dwt_depth_ho, value):
            vals = [v for v in value.split() if v]
            if dwt_depth_ho == 1 and dwt_depth == 0 and len(vals) == 1:
                return {0: {"L": int(vals[0])}}
            return orig(dwt_depth, dwt_depth_ho, value)

        CF.parse_quantization_matrix = parse_quantization_matrix

    def keyerror_on_missing_name_in_error_message():
        import vc2_conformance.codec_features as CF

        orig = CF.read_dict_list_csv

        def read_dict_list_csv(f):
            out = orig(f)
            for c in out:
                if c.get("slices_x") == "x1":
                    c.pop("level", None)
                    c["slices_x"] = c["nonexistent"]
            return out

        CF.read_dict_list_csv = read_dict_list_csv

    return [("minimum_not_enforced_for_slices_y", minimum_not_enforced_for_slices_y), ("bool_accepts_prefix", bool_accepts_prefix),
            ("matrix_short_list_accepted_for_horizontal_only", matrix_short_list_accepted_for_horizontal_only), ("keyerror_on_missing_name_in_error_message", keyerror_on_missing_name_in_error_message)]
