"""C04 -- lossless and unquantised encodings reconstruct pictures exactly (compositional).

A direct symbolic encode->serialise->decode forks three ways per coefficient and is out of reach beyond a handful of
samples, so the property is discharged as a chain of obligations over the real functions, each universally quantified by
the solver, plus end-to-end runs that tie the chain together:
 1 codec    picture_decode(picture_encode(p)) = p for every sample in [0, 2^depth)   (real encode/decode incl. offsets, clipping)
 2 dcpred   dc_prediction(apply_dc_prediction(b)) = b for arbitrary integer bands
 3 quant0   inverse_quant(forward_quant(c, 0), 0) = c and quantize_coeffs(0, cs, ms) = cs for any matrix values ms >= 0
 4 lengths  calculate_coeffs_bits = bits the real writer emits for the list with trailing zeros dropped;
            after make_transform_data_hq_lossless every block is long enough: 8*scaler*slice_length >= those bits
 5 e2e      the full real pipeline (make_sequence, autofill_and_serialise_stream, parse_stream) on a 2x1 4:4:4 format with
            symbolic 2-bit samples (lossless, and lossy with enough picture bytes for qindex 0): decoded samples = input
 6 glue     the full pipeline on the lossless configuration catalogue of C03 with concrete extreme / patterned pictures
            (slice placement and packing order do not depend on sample values beyond code lengths)
"""
from __future__ import annotations

import io
import random
from copy import deepcopy

from symx.core import cv_of, is_sym
from symx.symfile import SymFile

PROPERTY_ID = "C04"
LEVEL = "model_checking"
RULE = (
    "chain of obligations 1-4 over the real functions with symbolic samples/coefficients (one path per configuration or per "
    "code-length class), end-to-end runs 5 with symbolic 2-bit samples and 6 with concrete pictures over the configuration catalogue"
)
BOUNDS = {
    "quick": "1: 7 symmetric + 6 seeded asymmetric wavelet pairs, depth sum <= 2, components up to 4x4, bit depths 1/8/10/16; 2: bands up to 4x4; 4: <= 3 coefficients of 6 bits, scaler up to 8; 5: 2x1 picture, 2-bit samples; 6: 12 lossless configurations x 4 pictures",
    "thorough": "1: all 49 pairs at depth sum <= 2 with components up to 8x8, the 7 symmetric pairs also at depth sum 3 with components up to 5x3; 2: bands up to 8x8; 4: <= 4 coefficients of 8 bits; 5: 2x1 picture; 6: 20 configurations x 6 pictures",
}
OUTSIDE = "the composition argument (1-4 imply the property for every configuration) is informal; 5 and 6 check that the pieces are composed in matching order only for the listed configurations"
ASSUMPTIONS = ["samples are within the configured bit depth (property precondition)"]
STUBS = ["abs/min/max/range shadowed", "SymFile"]
BUDGET_S = {"quick": 600, "thorough": 3000}
ENGINE_OPTS = {"max_decisions": 20000}
IFCONV = ["write_bit"]


def tasks(tier, seed):
    rnd = random.Random(seed)
    q = tier == "quick"
    out = []
    pairs = [(w, w) for w in range(7)]
    allp = [(a, b) for a in range(7) for b in range(7) if a != b]
    pairs += rnd.sample(allp, 6) if q else allp
    sizes = [(1, 1), (2, 1), (3, 2), (4, 4)] if q else [(1, 1), (2, 1), (3, 2), (4, 4), (5, 3), (8, 8), (7, 6)]
    for (wi, wh) in pairs:
        for d in range(0, 4):
            for dh in range(0, 4):
                # thorough: depth sum 3 for the symmetric pairs only (asymmetric pairs at depth sum 3 with 8x8 components
                # exceed the budget and leave z3 with unknowns on the deepest Daubechies/Fidelity lifting chains)
                if d + dh > (2 if (q or wi != wh) else 3):
                    continue
                cases = [(w, h, rnd.choice([(1, 1), (8, 8), (10, 8), (16, 12), (8, 10)])) for (w, h) in sizes]
                if q:
                    cases = rnd.sample(cases, 2)
                elif d + dh == 3:
                    cases = cases[:5]
                out.append({"id": "codec w%d/%d d%d/%d" % (wi, wh, d, dh), "harness": "codec", "args": (wi, wh, d, dh, cases)})
    for (w, h) in ([(1, 1), (2, 2), (3, 4), (4, 4)] if q else [(1, 1), (2, 2), (3, 4), (4, 4), (8, 8), (5, 7)]):
        out.append({"id": "dcpred %dx%d" % (w, h), "harness": "dcpred", "args": (w, h)})
    out.append({"id": "quant0", "harness": "quant0", "args": ()})
    for n in ((1, 2, 3) if q else (1, 2, 3, 4)):
        out.append({"id": "lengths n=%d" % n, "harness": "lengths", "args": (n, 6 if q else 8)})
    out.append({"id": "hq lossless rescale", "harness": "rescale", "args": (8 if q else 32,)})
    for mode in ("lossless", "lossy-q0", "ld-lossy-q0"):
        # all values of every 2-bit sample: 2x1 = 12 bits (4096 paths); 3x1 (18 bits, 262k full pipeline runs) and 2x2 (24 bits) do not fit
        # the budget, so both tiers use 2x1
        out.append({"id": "e2e %s" % mode, "harness": "e2e", "args": (mode, (2, 1))})
    out.append({"id": "glue", "harness": "glue", "args": (tier,)})
    return out


def _codec_state(wi, wh, d, dh, w, h, depth):
    from vc2_conformance.pseudocode.state import State

    ld, cd = depth
    return State(wavelet_index=wi, wavelet_index_ho=wh, dwt_depth=d, dwt_depth_ho=dh, luma_width=w, luma_height=h,
                 color_diff_width=max(1, w // 2), color_diff_height=h, luma_depth=ld, color_diff_depth=cd)


def _codec_roundtrip(st, pic):
    from vc2_conformance.pseudocode.picture_encoding import picture_encode
    from vc2_conformance.pseudocode.picture_decoding import picture_decode

    src = {c: [list(r) for r in pic[c]] for c in ("Y", "C1", "C2")}
    picture_encode(st, src)
    st["picture_number"] = 7
    picture_decode(st)
    return st["current_picture"]


def _e2e(mode, size, sample, make_file):
    """Full pipeline on a w x h 4:4:4 picture with 2-bit samples.  Returns (verdict class, decoded pictures, source)."""
    from lib.streams import minimal_codec_features
    from vc2_conformance.encoder import make_sequence
    from vc2_conformance.bitstream import Stream, autofill_and_serialise_stream
    from vc2_data_tables import Profiles
    from lib import dec

    w, h = size
    vp = dict(frame_width=w, frame_height=h, clean_width=w, clean_height=h, luma_offset=0, luma_excursion=3, color_diff_offset=2, color_diff_excursion=3)
    kw = dict(video_parameters=vp, slices_x=1, slices_y=1, dwt_depth=1)
    if mode == "lossless":
        kw.update(lossless=True, picture_bytes=None)
    elif mode == "lossy-q0":
        kw.update(lossless=False, picture_bytes=40)
    else:
        kw.update(lossless=False, picture_bytes=40, profile=Profiles.low_delay)
    cf = minimal_codec_features(**kw)
    pic = {c: [[sample("%s%d_%d" % (c, y, x)) for x in range(w)] for y in range(h)] for c in ("Y", "C1", "C2")}
    src = {c: [list(r) for r in pic[c]] for c in pic}
    pic["pic_num"] = 0
    seq = make_sequence(cf, [pic])
    qs = []
    for du in seq["data_units"]:
        pp = du.get("picture_parse")
        if pp:
            td = pp["wavelet_transform"]["transform_data"]
            qs += [s["qindex"] for s in td.get("hq_slices", td.get("ld_slices", []))]
    f = make_file()
    autofill_and_serialise_stream(f, Stream(sequences=[seq]))
    got = []
    cls, st, exc = dec.run_decoder(make_file(f), on_picture=lambda p, v, m: got.append(p))
    return cls, got, src, qs


def build(task):
    hname = task["harness"]
    a = task["args"]
    if hname == "codec":
        wi, wh, d, dh, cases = a

        def h(ctx):
            k = ctx.concretize(ctx.sym_int("case", 0, len(cases) - 1))
            w, hh, depth = cases[k]
            st = _codec_state(wi, wh, d, dh, w, hh, depth)
            rnd = random.Random(k)
            pic = {}
            for c, (cw, ch) in (("Y", (w, hh)), ("C1", (max(1, w // 2), hh)), ("C2", (max(1, w // 2), hh))):
                dp = depth[0] if c == "Y" else depth[1]
                pic[c] = [[ctx.sym_int("%s%d_%d" % (c, y, x), 0, (1 << dp) - 1, default=rnd.randrange(1 << dp)) for x in range(cw)] for y in range(ch)]
            out = _codec_roundtrip(st, pic)
            for c in ("Y", "C1", "C2"):
                ctx.prove(len(out[c]) == len(pic[c]) and all(len(r) == len(s) for r, s in zip(out[c], pic[c])), "shape", [c])
                for y, row in enumerate(pic[c]):
                    for x, v in enumerate(row):
                        ctx.prove_eq(out[c][y][x], v, "codec-roundtrip %s[%d][%d]" % (c, y, x))
            return "case %d" % k

        return h
    if hname == "dcpred":
        w, hh = a

        def hd(ctx):
            from vc2_conformance.encoder.pictures import apply_dc_prediction
            from vc2_conformance.decoder.transform_data_syntax import dc_prediction

            rnd = random.Random(w * 10 + hh)
            band = [[ctx.sym_int("b%d_%d" % (y, x), default=rnd.randint(-300, 300)) for x in range(w)] for y in range(hh)]
            work = [list(r) for r in band]
            apply_dc_prediction(work)
            dc_prediction(work)
            for y in range(hh):
                for x in range(w):
                    ctx.prove_eq(work[y][x], band[y][x], "dc-prediction-inverse[%d][%d]" % (y, x))
            return "ok"

        return hd
    if hname == "quant0":

        def hq(ctx):
            from vc2_conformance.pseudocode.quantization import forward_quant, inverse_quant
            from vc2_conformance.encoder.pictures import quantize_coeffs

            c = ctx.sym_int("c", default=-37)
            ctx.prove_eq(inverse_quant(forward_quant(c, 0), 0), c, "quantisation-index-0-lossless")
            cs = [ctx.sym_int("c%d" % i, default=5 - 9 * i) for i in range(3)]
            ms = [ctx.sym_int("m%d" % i, 0, None, default=i) for i in range(3)]
            qc = quantize_coeffs(0, cs, ms)
            for i in range(3):
                ctx.prove_eq(inverse_quant(qc[i], 0), cs[i], "quantize_coeffs-at-0")
            return "ok"

        return hq
    if hname == "lengths":
        n, bits = a

        def hl(ctx):
            from vc2_conformance.encoder.pictures import calculate_coeffs_bits
            from vc2_conformance.bitstream.io import BitstreamWriter, to_bit_offset

            rnd = random.Random(n)
            cs = []
            for i in range(n):
                mag = ctx.sym_bits("m%d" % i, bits, rnd.randrange(1 << bits))
                neg = ctx.sym_int("s%d" % i, 0, 1, default=rnd.randrange(2))
                cs.append(mag - 2 * neg * mag if False else (mag if not bool(neg == 1) else -mag))
            nb = calculate_coeffs_bits(cs)
            # reference: write the list with trailing zeros dropped
            k = len(cs)
            while k > 0 and not bool(cs[k - 1] != 0):
                k -= 1
            w = BitstreamWriter(SymFile())
            for c in cs[:k]:
                w.write_sint(c)
            ctx.prove_eq(nb, to_bit_offset(*w.tell()), "calculate_coeffs_bits=bits-written")
            return "k=%d" % k

        return hl
    if hname == "rescale":
        (smax,) = a

        def hr(ctx):
            from vc2_conformance.encoder import pictures as P

            # havoc the code lengths: calculate_hq_length_field is the ceiling of arbitrary bit counts
            bits = [[ctx.sym_int("bits%d_%d" % (s, c), 0, 8 * 255 * smax, default=17 * (s + 1) * (c + 2)) for c in range(3)] for s in range(2)]
            orig = P.calculate_coeffs_bits
            seq = iter([b for row in bits for b in row])
            P.calculate_coeffs_bits = lambda coeffs: next(seq)
            try:
                coeffs = [[P.SliceCoeffs(*[P.ComponentCoeffs([0], [0]) for _ in range(3)]) for _ in range(2)]]
                scaler, td = P.make_transform_data_hq_lossless(coeffs)
            finally:
                P.calculate_coeffs_bits = orig
            sc = ctx.concretize(scaler) if is_sym(scaler) else scaler
            for s, sl in enumerate(td["hq_slices"]):
                for c, key in enumerate(("slice_y_length", "slice_c1_length", "slice_c2_length")):
                    ctx.prove(8 * sc * sl[key] >= bits[s][c], "block-long-enough", [s, key, sc])
                    ctx.prove_all([sl[key] >= 0, sl[key] <= 255], "length-field-fits-8-bits", [s, key, sc])
            return "scaler %d" % sc

        return hr
    if hname == "e2e":
        mode, size = a

        def he(ctx):
            def sample(name):
                # value-enumerating on purpose (<= 4096 paths): a symbolic end-to-end run forks per code-length class and
                # sign of every coefficient and leaves z3 with nested div/mod terms it does not decide in time
                return ctx.concretize(ctx.sym_bits(name, 2, 1))

            def mk(f=None):
                return SymFile(f.getcells()) if f is not None else SymFile()

            cls, got, src, qs = _e2e(mode, size, sample, mk)
            if cls[0] != "ok":
                ctx.fail("encoder-output-rejected", list(cls))
                return list(cls)[:2]
            q0 = all(cv_of(q) == 0 for q in qs)
            if mode != "lossless" and not q0:
                return ["ok", "quantised"]  # property only speaks about slices coded with qindex 0
            ctx.prove(len(got) == 1, "one-picture", [len(got)])
            for c in ("Y", "C1", "C2"):
                for y, row in enumerate(src[c]):
                    for x, v in enumerate(row):
                        ctx.prove_eq(got[0][c][y][x], v, "decoded-sample %s[%d][%d]" % (c, y, x))
            return ["ok", "exact"]

        return he

    (tier,) = a

    def hg(ctx):
        import checks.c03 as c03

        cfgs = [c for c in c03._configs(tier) if c.get("lossless")]
        k = ctx.concretize(ctx.sym_int("cfg", 0, len(cfgs) - 1))
        pat = ctx.concretize(ctx.sym_int("pattern", 0, 3 if tier == "quick" else 5))
        bad = _glue_case(cfgs[k], pat)
        if bad:
            ctx.fail("lossless-roundtrip-differs", [cfgs[k]["name"], pat, bad])
        return "%s/%d" % (cfgs[k]["name"], pat)

    return hg


def _glue_case(cfg, pat):
    import checks.c03 as c03
    from lib.streams import make_pictures, encode, decode

    cf = c03._cf(cfg)
    fills = [lambda c, x, y, i: 0, lambda c, x, y, i: (1 << 30) - 1, lambda c, x, y, i: ((x + y) % 2) * ((1 << 30) - 1),
             lambda c, x, y, i: (x * 2654435761 + y * 40503 + i * 97 + len(c) * 7919) >> 3, lambda c, x, y, i: x * 3 + 1, lambda c, x, y, i: (1 << 30) - 1 - y]
    pics = make_pictures(cf, 2, fill=fills[pat])
    data = encode(cf, pics)
    v, out = decode(data)
    if v != "ok":
        return "rejected: %r" % (v,)
    if len(out) != len(pics):
        return "picture count %d" % len(out)
    for (p, vp, pcm), s in zip(out, pics):
        for c in ("Y", "C1", "C2"):
            if p[c] != s[c]:
                return "component %s differs: %r vs %r" % (c, p[c], s[c])
    return None


def validate(task, inputs, outcome):
    return None


def replay(task, label, inputs, extra):
    """Re-run the same harness with every input pinned to the model's value (plain ints through the plain code)."""
    from symx import core

    if task["harness"] == "glue":
        import checks.c03 as c03

        cfgs = [c for c in c03._configs(task["args"][0]) if c.get("lossless")]
        bad = _glue_case(cfgs[inputs.get("cfg", 0)], inputs.get("pattern", 0))
        return {"reproduced": bad is not None, "key": "C04:glue", "detail": "%s pattern %d: %s" % (cfgs[inputs.get("cfg", 0)]["name"], inputs.get("pattern", 0), bad)}
    fn = build(task)
    eng = core.Engine({})

    def pinned(ctx):
        def sym_int(name, lo=None, hi=None, default=None):
            v = inputs.get(name, default if default is not None else 0)
            if lo is not None:
                v = max(v, lo)
            if hi is not None:
                v = min(v, hi)
            return v

        def sym_bits(name, nbits, default=0):
            v = 0
            for j in range(nbits):
                b = inputs.get("%s.%d" % (name, j))
                v = (v << 1) | ((default >> (nbits - 1 - j)) & 1 if b is None else b)
            return v

        ctx.sym_int = sym_int
        ctx.sym_bits = sym_bits
        return fn(ctx)

    ctx, res = core.run_path(pinned, eng, [], {})
    bad = res.failed
    return {"reproduced": bool(bad), "key": "C04:%s:%s" % (task["harness"], bad[0][0].split(" ")[0] if bad else None),
            "detail": "task %s: %r" % (task["id"], [(f[0], f[3]) for f in bad][:3])}


def canaries():
    def dc_prediction_mean_rounds_differently_in_encoder():
        import vc2_conformance.encoder.pictures as P

        def apply_dc_prediction(band):
            for y in reversed(range(P.height(band))):
                for x in reversed(range(P.width(band))):
                    if x > 0 and y > 0:
                        s = band[y][x - 1] + band[y - 1][x - 1] + band[y - 1][x]
                        prediction = s // 3 if y == 3 else P.mean(band[y][x - 1], band[y - 1][x - 1], band[y - 1][x])
                    elif x > 0 and y == 0:
                        prediction = band[0][x - 1]
                    elif x == 0 and y > 0:
                        prediction = band[y - 1][0]
                    else:
                        prediction = 0
                    band[y][x] -= prediction

        P.apply_dc_prediction = apply_dc_prediction

    def remove_offset_uses_luma_depth_for_chroma():
        import vc2_conformance.pseudocode.picture_encoding as E

        def remove_offset_component(state, comp_data, c):
            for y in range(E.height(comp_data)):
                for x in range(E.width(comp_data)):
                    d = state["luma_depth"] if (c == "Y" or state["dwt_depth_ho"] == 2) else state["color_diff_depth"]
                    comp_data[y][x] -= 2 ** (d - 1)

        E.remove_offset_component = remove_offset_component

    def coeffs_bits_forgets_sign_of_minus_one():
        import vc2_conformance.encoder.pictures as P

        def calculate_coeffs_bits(coeffs):
            num_bits = 0
            skip = True
            for coeff in reversed(coeffs):
                if skip and coeff == 0:
                    continue
                skip = False
                num_bits += P.signed_exp_golomb_length(coeff) - (1 if coeff == -1 else 0)
            return num_bits

        P.calculate_coeffs_bits = calculate_coeffs_bits

    def lossless_scaler_rounds_down():
        import vc2_conformance.encoder.pictures as P
        import inspect, textwrap

        src = inspect.getsource(P.make_transform_data_hq_lossless)
        src = src.replace('hq_slice["slice_c2_length"] += slice_size_scaler - 1', 'hq_slice["slice_c2_length"] += slice_size_scaler - 2')
        assert "slice_size_scaler - 2" in src
        ns = {}
        exec(compile(textwrap.dedent(src), "<canary>", "exec"), P.__dict__, ns)
        P.make_transform_data_hq_lossless = ns["make_transform_data_hq_lossless"]

    return [("dc_prediction_mean_rounds_differently_in_encoder", dc_prediction_mean_rounds_differently_in_encoder),
            ("remove_offset_uses_luma_depth_for_chroma", remove_offset_uses_luma_depth_for_chroma),
            ("coeffs_bits_forgets_sign_of_minus_one", coeffs_bits_forgets_sign_of_minus_one),
            ("lossless_scaler_rounds_down", lossless_scaler_rounds_down)]
