"""C09 -- every decoded picture is well-formed.

(a) the real picture_decode (inverse_wavelet_transform, idwt, clip_picture, offset_picture, idwt_pad_removal) on a state
    whose three transforms hold *arbitrary* symbolic integers: every output sample lies in [0, 2^depth - 1], every
    component has exactly luma/color_diff width x height, pic_num is the state's picture number;
(b) the real decoder on assembled streams with symbolic picture numbers: exactly one picture is output per picture data
    unit and per completed fragmented picture (never for an incomplete one), carrying the coded picture number;
(c) picture_dimensions / video_depth with symbolic frame sizes and excursions.
"""
from __future__ import annotations

import io
import random

from lib import blocks, dec
from symx.core import cv_of, is_sym
from symx.symfile import SymFile

PROPERTY_ID = "C09"
LEVEL = "model_checking"
RULE = (
    "(a) configuration = (wavelet pair, depths, component sizes, bit depths): transform coefficients are unbounded symbolic integers, "
    "obligations per output sample; (b) block orders with symbolic 32-bit picture numbers: callbacks counted and numbers proved "
    "equal per accepting path; (c) symbolic frame size / excursions for the dimension and depth functions"
)
BOUNDS = {
    "quick": "(a) 7 symmetric + 8 seeded asymmetric wavelet pairs, depth sum <= 2, luma up to 5x4, chroma formats 4:4:4/4:2:2/4:2:0, bit depths 1, 8, 10, 16; (b) 20 block orders; (c) frame sizes any integer >= 1, excursions 0..2^17 symbolic plus a concrete probe at 2^k-1, 2^k, 2^k+1 for k <= 64",
    "thorough": "(a) all 49 wavelet pairs, depth sum <= 3, luma up to 8x6; (b) 20 block orders; (c) as quick",
}
OUTSIDE = "component sizes/depths above the bound in (a); payload bytes are concrete in (b)"
ASSUMPTIONS = ["min/max/abs inside vc2_conformance modules are symbolic-aware (z3 If terms with exact intervals)"]
STUBS = ["abs/min/max/range shadowed in vc2_conformance module namespaces", "SymFile"]
BUDGET_S = {"quick": 500, "thorough": 2400}
IFCONV = True

ORDERS = [
    ["SH", "PIC", "EOS"], ["SH", "PIC", "PIC", "PIC", "EOS"], ["SH", "PADU", "PIC", "AUXU", "PIC", "EOS"], ["SH", "EOS"],
    ["SH_V3", "F0", "FS0", "FS1", "EOS"], ["SH_V3", "F0", "FS01", "EOS"], ["SH_V3", "F0", "FS0", "FS1", "F0", "FS01", "EOS"],
    ["SH_V3", "F0", "FS0", "EOS"], ["SH_V3", "F0", "EOS"], ["SH_V3", "F0", "FS0", "F0", "FS01", "EOS"],
    ["SH_LD", "PIC_LD", "PIC_LD", "EOS"], ["SH_LD_V3", "F0_LD", "FS0_LD", "FS1_LD", "EOS"], ["SH_LD_V3", "F0_LD", "FS0_LD", "EOS"],
    ["SH_FIELDS", "PIC", "PIC", "EOS"], ["SH_FIELDS", "PIC", "PIC", "PIC", "PIC", "EOS"],
    ["SH_L1", "PIC", "PIC", "EOS"], ["SH_L66", "PIC", "SH_L66", "PIC", "EOS"],
    ["SH", "PIC", "EOS", "SH_V3", "F0", "FS01", "EOS"], ["SH_V3", "F0", "FS0", "EOS", "SH", "PIC", "EOS"], ["SH_V3", "PIC", "F0", "FS01", "EOS"],
]


def precheck():
    return dec.verify_fixtures(PROPERTY_ID)


def tasks(tier, seed):
    rnd = random.Random(seed)
    out = []
    pairs = [(w, w) for w in range(7)]
    allp = [(a, b) for a in range(7) for b in range(7) if a != b]
    pairs += rnd.sample(allp, 8) if tier == "quick" else allp
    maxsum = 2 if tier == "quick" else 3
    sizes = [(1, 1), (2, 2), (3, 1), (4, 3), (5, 4)] if tier == "quick" else [(1, 1), (2, 2), (3, 1), (4, 3), (5, 4), (8, 6), (7, 5)]
    for (wi, wh) in pairs:
        for d in range(0, 4):
            for dh in range(0, 4):
                if d + dh > maxsum or (wi != wh and dh == 0 and False):
                    continue
                cases = []
                for (w, h) in sizes:
                    for fmt in (0, 1, 2):
                        cw = w if fmt == 0 else max(1, w // 2)
                        ch = h if fmt != 2 else max(1, h // 2)
                        ld, cd = rnd.choice([(8, 8), (10, 10), (1, 1), (16, 12), (8, 10)])
                        cases.append((w, h, cw, ch, ld, cd))
                if tier == "quick":
                    cases = rnd.sample(cases, 4)
                out.append({"id": "decode w%d/%d d%d/%d" % (wi, wh, d, dh), "harness": "decode", "args": (wi, wh, d, dh, cases)})
    for i in range(0, len(ORDERS), 2):
        out.append({"id": "callbacks#%d" % (i // 2), "harness": "callbacks", "args": ORDERS[i:i + 2]})
    out.append({"id": "dimensions", "harness": "dims", "args": ()})
    out.append({"id": "base-format-defaults", "harness": "basefmt", "args": ()})
    return out


def _decode_state(wi, wh, d, dh, case, value):
    from vc2_conformance.pseudocode.state import State
    from vc2_conformance.decoder.transform_data_syntax import initialize_wavelet_data

    w, h, cw, ch, ld, cd = case
    st = State(wavelet_index=wi, wavelet_index_ho=wh, dwt_depth=d, dwt_depth_ho=dh, luma_width=w, luma_height=h,
               color_diff_width=cw, color_diff_height=ch, luma_depth=ld, color_diff_depth=cd)
    st["picture_number"] = value("picnum", 0, (1 << 32) - 1)
    for comp, key in (("Y", "y_transform"), ("C1", "c1_transform"), ("C2", "c2_transform")):
        t = initialize_wavelet_data(st, comp)
        for level, bands in t.items():
            for orient, arr in bands.items():
                for y in range(len(arr)):
                    for x in range(len(arr[y])):
                        arr[y][x] = value("%s.%d.%s.%d.%d" % (comp, level, orient, y, x), None, None)
        st[key] = t
    return st


def _check_picture(st, pic, prove, prove_eq, tag):
    w, h, cw, ch, ld, cd = tag
    prove(sorted(k for k in pic) == ["C1", "C2", "Y", "pic_num"], "picture-keys", sorted(pic))
    prove_eq(pic["pic_num"], st["picture_number"], "pic_num")
    for c, (ew, eh, depth) in (("Y", (w, h, ld)), ("C1", (cw, ch, cd)), ("C2", (cw, ch, cd))):
        arr = pic[c]
        ok = len(arr) == eh and all(len(r) == ew for r in arr)
        prove(ok, "component-shape", [c, len(arr), [len(r) for r in arr][:3], ew, eh])
        if not ok:
            continue
        for y in range(eh):
            for x in range(ew):
                v = arr[y][x]
                prove(v >= 0, "sample>=0 %s[%d][%d]" % (c, y, x), list(tag))
                prove(v <= (1 << depth) - 1, "sample<=max %s[%d][%d]" % (c, y, x), list(tag))


def build(task):
    from vc2_conformance.pseudocode import picture_decoding as PD
    from vc2_conformance.pseudocode import video_parameters as VP
    from vc2_conformance.pseudocode.state import State

    if task["harness"] == "decode":
        wi, wh, d, dh, cases = task["args"]

        def h(ctx):
            k = ctx.concretize(ctx.sym_int("case", 0, len(cases) - 1))
            rnd = random.Random(k)

            def value(name, lo, hi):
                if lo is None:
                    return ctx.sym_int(name, default=rnd.randint(-5000, 5000))
                return ctx.sym_int(name, lo, hi, default=rnd.randint(lo, hi))

            st = _decode_state(wi, wh, d, dh, cases[k], value)
            got = []
            st["_output_picture_callback"] = lambda pic, vp, pcm: got.append(pic)
            st["video_parameters"] = {}
            st["picture_coding_mode"] = 0
            PD.picture_decode(st)
            ctx.prove(len(got) == 1, "one-callback", [len(got)])
            _check_picture(st, st["current_picture"], lambda c, l, e=None: ctx.prove(c, l, e), lambda a, b, l: ctx.prove_eq(a, b, l), cases[k])
            return "case %d" % k

        return h

    if task["harness"] == "callbacks":
        from lib.levels import relax_levels

        relax_levels()
        orders = task["args"]

        def hc(ctx):
            k = ctx.concretize(ctx.sym_int("order", 0, len(orders) - 1))
            order = blocks.normalise_order(orders[k])

            def field(i, name, nbits, default):
                if name == "pic":
                    return ctx.sym_bits("u%d.pic" % i, 32, default)
                return default

            cells, units = blocks.assemble(order, field)
            pics = []
            cls, st, exc = dec.run_decoder(SymFile(cells), on_picture=lambda pic, vp, pcm: pics.append(pic))
            if cls[0] == "EXC":
                ctx.fail("unexpected-exception", list(cls))
                return [k, "EXC"]
            exp = _expected_pictures(units, upto_error=(cls[0] != "ok"))
            if cls[0] == "ok":
                ctx.prove(len(pics) == len(exp), "picture-count", [order, len(pics), len(exp)])
                for p, u in zip(pics, exp):
                    ctx.prove_eq(p["pic_num"], u.picnum, "output-picture-number")
            else:
                ctx.prove(len(pics) <= len(exp), "no-extra-pictures-before-error", [order, len(pics), len(exp)])
            return [k, cls[0], len(pics)]

        return hc

    if task["harness"] == "basefmt":

        def hb(ctx):
            import vc2_data_tables as T

            bases = [int(x) for x in T.BaseVideoFormats]
            base = bases[ctx.concretize(ctx.sym_int("base", 0, len(bases) - 1))]
            pcm = ctx.concretize(ctx.sym_int("pcm", 0, 1))
            got, want, dims, wdims = _basefmt_case(base, pcm)
            if got is None:
                if pcm == 1 and want["frame_height"] % 2:
                    return "odd height"
                ctx.fail("base-format-header-rejected", [base, pcm, dims])
                return "rejected"
            ctx.prove(got == want, "base-format-defaults", [base, {k: (got.get(k), want[k]) for k in want if got.get(k) != want[k]}])
            ctx.prove(tuple(dims) == tuple(wdims), "base-format-picture-dimensions", [base, pcm, dims, wdims])
            return "base %d pcm %d" % (base, pcm)

        return hb

    def hd(ctx):
        bad = _depth_probe(VP, State)
        if bad:
            ctx.fail("depth-probe", bad[:3])
        fw = ctx.sym_int("fw", 1, None, default=37)
        fh = ctx.sym_int("fh", 1, None, default=22)
        fmt = ctx.concretize(ctx.sym_int("fmt", 0, 2))
        pcm = ctx.concretize(ctx.sym_int("pcm", 0, 1))
        le = ctx.sym_int("le", 0, 1 << 17, default=255)
        ce = ctx.sym_int("ce", 0, 1 << 17, default=1023)
        st = State(picture_coding_mode=pcm)
        vp = {"frame_width": fw, "frame_height": fh, "color_diff_format_index": fmt, "luma_excursion": le, "color_diff_excursion": ce}
        VP.picture_dimensions(st, vp)
        VP.video_depth(st, vp)
        ew = fw if fmt == 0 else fw // 2
        eh = fh if fmt != 2 else fh // 2
        lh = fh
        if pcm == 1:
            lh, eh = lh // 2, eh // 2
        ctx.prove_eq(st["luma_width"], fw, "luma_width")
        ctx.prove_eq(st["luma_height"], lh, "luma_height")
        ctx.prove_eq(st["color_diff_width"], ew, "color_diff_width")
        ctx.prove_eq(st["color_diff_height"], eh, "color_diff_height")
        for key, exc in (("luma_depth", le), ("color_diff_depth", ce)):
            dpt = ctx.concretize(st[key]) if is_sym(st[key]) else int(st[key])
            ctx.prove(exc + 1 <= (1 << dpt), "excursion+1<=2^depth", [key, dpt])
            if dpt > 0:
                ctx.prove(exc + 1 > (1 << (dpt - 1)), "excursion+1>2^(depth-1)", [key, dpt])
            else:
                ctx.prove(exc + 1 <= 1, "depth-0-only-for-excursion-0", [key])
        return "fmt%d pcm%d" % (fmt, pcm)

    return hd


def _depth_probe(VP, State):
    """Concrete probe beyond the symbolic bound: video_depth at every excursion 2^k - 1, 2^k, 2^k + 1 for k <= 64."""
    bad = []
    for k in range(0, 65):
        for exc in ((1 << k) - 1, 1 << k, (1 << k) + 1):
            st = State()
            VP.video_depth(st, {"luma_excursion": exc, "color_diff_excursion": exc})
            for key in ("luma_depth", "color_diff_depth"):
                d = st[key]
                if not (exc + 1 <= (1 << d) and (d == 0 or exc + 1 > (1 << (d - 1)))):
                    bad.append([key, exc, d])
    return bad


def _golomb(v):
    """Independent exp-Golomb packer (bit string) used to hand-build sequence headers."""
    v += 1
    n = v.bit_length()
    out = ""
    for i in range(n - 2, -1, -1):
        out += "0" + str((v >> i) & 1)
    return out + "1"


def _basefmt_case(base, pcm):
    """Header with no custom flags: the decoder must report exactly the base format's tabulated parameters
    (reference: the vc2_data_tables package tables, not vc2_conformance)."""
    import vc2_data_tables as T
    from vc2_conformance.pseudocode.state import State
    from vc2_conformance.decoder import init_io, sequence_header
    from vc2_conformance.decoder.exceptions import ConformanceError

    b = T.BASE_VIDEO_FORMAT_PARAMETERS[T.BaseVideoFormats(base)]
    fr = T.PRESET_FRAME_RATES[b.frame_rate_index]
    pa = T.PRESET_PIXEL_ASPECT_RATIOS[b.pixel_aspect_ratio_index]
    sr = T.PRESET_SIGNAL_RANGES[b.signal_range_index]
    cs = T.PRESET_COLOR_SPECS[b.color_spec_index]
    want = dict(frame_width=b.frame_width, frame_height=b.frame_height, color_diff_format_index=int(b.color_diff_format_index),
                source_sampling=int(b.source_sampling), top_field_first=b.top_field_first, frame_rate_numer=fr.numerator, frame_rate_denom=fr.denominator,
                pixel_aspect_ratio_numer=pa.numerator, pixel_aspect_ratio_denom=pa.denominator, clean_width=b.clean_width, clean_height=b.clean_height,
                left_offset=b.left_offset, top_offset=b.top_offset, luma_offset=sr.luma_offset, luma_excursion=sr.luma_excursion,
                color_diff_offset=sr.color_diff_offset, color_diff_excursion=sr.color_diff_excursion, color_primaries_index=int(cs.color_primaries_index),
                color_matrix_index=int(cs.color_matrix_index), transfer_function_index=int(cs.transfer_function_index))
    for version in (1, 2, 3):
        bits = _golomb(version) + _golomb(0) + _golomb(0) + _golomb(0) + _golomb(base) + "0" * 8 + _golomb(pcm)
        bits += "0" * (-len(bits) % 8)
        data = bytes(int(bits[i:i + 8], 2) for i in range(0, len(bits), 8))
        st = State()
        init_io(st, io.BytesIO(data))
        try:
            vp = sequence_header(st)
        except ConformanceError as e:
            last = e
            continue
        cw = b.frame_width if int(b.color_diff_format_index) == 0 else b.frame_width // 2
        chh = b.frame_height if int(b.color_diff_format_index) != 2 else b.frame_height // 2
        lh = b.frame_height
        if pcm == 1:
            lh, chh = lh // 2, chh // 2
        dims = (st["luma_width"], st["luma_height"], st["color_diff_width"], st["color_diff_height"])
        return {k: int(v) if not isinstance(v, bool) else v for k, v in vp.items()}, want, dims, (b.frame_width, lh, cw, chh)
    return None, want, repr(last), None


def _expected_pictures(units, upto_error=False):
    """Picture units and completed fragmented pictures, in order (reference, independent of the decoder)."""
    out = []
    remaining = 0
    cur = None
    nsl = 2
    for u in units:
        b = u.block
        if b.code == blocks.SEQ:
            nsl = b.slices
        if b.code == blocks.EOS:
            remaining, cur = 0, None
        if b.is_picture():
            out.append(u)
        elif b.is_fragment():
            if b.nslices == 0:
                remaining, cur = nsl, u
            elif cur is not None:
                remaining -= b.nslices
                if remaining == 0:
                    out.append(cur)
                    cur = None
    return out


def _inputs_value(inputs):
    def value(name, lo, hi):
        return inputs.get(name, 0 if lo is None else lo)

    return value


def validate(task, inputs, outcome):
    return None


def replay(task, label, inputs, extra):
    from vc2_conformance.pseudocode import picture_decoding as PD

    bad = []

    def prove(c, l, e=None):
        if not c:
            bad.append((l, e))

    if task["harness"] == "decode":
        wi, wh, d, dh, cases = task["args"]
        case = cases[inputs.get("case", 0)]
        st = _decode_state(wi, wh, d, dh, case, _inputs_value(inputs))
        got = []
        st["_output_picture_callback"] = lambda pic, vp, pcm: got.append(pic)
        st["video_parameters"] = {}
        st["picture_coding_mode"] = 0
        PD.picture_decode(st)
        prove(len(got) == 1, "one-callback")
        _check_picture(st, st["current_picture"], prove, lambda a, b, l: prove(a == b, l), case)
        return {"reproduced": bool(bad), "key": "C09:decode:%s" % (bad[0][0].split(" ")[0] if bad else None),
                "detail": "wavelet %d/%d depth %d/%d case %r picture_number %r: %r" % (wi, wh, d, dh, case, st["picture_number"], bad[:2])}
    if task["harness"] == "callbacks":
        from lib.levels import relax_levels

        relax_levels()
        orders = task["args"]
        order = blocks.normalise_order(orders[inputs.get("order", 0)])

        def field(i, name, nbits, default):
            if name != "pic":
                return default
            v = 0
            for j in range(32):
                bit = inputs.get("u%d.pic.%d" % (i, j))
                v = (v << 1) | ((default >> (31 - j)) & 1 if bit is None else bit)
            return v

        cells, units = blocks.assemble(order, field)
        pics = []
        cls, st, exc = dec.run_decoder(io.BytesIO(bytes(cells)), on_picture=lambda pic, vp, pcm: pics.append(pic))
        exp = _expected_pictures(units)
        if cls[0] == "EXC":
            bad.append(("unexpected-exception", list(cls)))
        elif cls[0] == "ok":
            prove(len(pics) == len(exp), "picture-count", [len(pics), len(exp)])
            for p, u in zip(pics, exp):
                prove(p["pic_num"] == u.picnum, "output-picture-number", [p["pic_num"], u.picnum])
        else:
            prove(len(pics) <= len(exp), "no-extra-pictures-before-error")
        return {"reproduced": bool(bad), "key": "C09:callbacks:%s" % (bad[0][0] if bad else None),
                "detail": "order %r verdict %r pictures %d expected %d stream %s" % (order, cls, len(pics), len(exp), bytes(cells).hex())}
    if task["harness"] == "basefmt":
        import vc2_data_tables as T

        bases = [int(x) for x in T.BaseVideoFormats]
        base, pcm = bases[inputs.get("base", 0)], inputs.get("pcm", 0)
        got, want, dims, wdims = _basefmt_case(base, pcm)
        if got is None:
            return {"reproduced": not (pcm == 1 and want["frame_height"] % 2), "key": "C09:basefmt:rejected", "detail": "base %d pcm %d: %s" % (base, pcm, dims)}
        diff = {k: (got.get(k), want[k]) for k in want if got.get(k) != want[k]}
        return {"reproduced": bool(diff) or tuple(dims) != tuple(wdims), "key": "C09:basefmt:%s" % ("defaults" if diff else "dimensions"),
                "detail": "base video format %d coding mode %d: differing parameters (decoder, table) %r; dimensions %r vs %r" % (base, pcm, diff, dims, wdims)}
    # dims
    from vc2_conformance.pseudocode import video_parameters as VP
    from vc2_conformance.pseudocode.state import State

    if label == "depth-probe":
        pb = _depth_probe(VP, State)
        return {"reproduced": bool(pb), "key": "C09:dims:depth-probe", "detail": "video_depth gives (component, excursion, depth) %r: the depth must be the number of bits of the excursion" % (pb[:4],)}
    fw, fh, fmt, pcm, le, ce = (inputs.get(k, d) for k, d in (("fw", 1), ("fh", 1), ("fmt", 0), ("pcm", 0), ("le", 0), ("ce", 0)))
    st = State(picture_coding_mode=pcm)
    VP.picture_dimensions(st, {"frame_width": fw, "frame_height": fh, "color_diff_format_index": fmt})
    VP.video_depth(st, {"luma_excursion": le, "color_diff_excursion": ce})
    ew = fw if fmt == 0 else fw // 2
    eh = fh if fmt != 2 else fh // 2
    lh = fh
    if pcm == 1:
        lh, eh = lh // 2, eh // 2
    prove((st["luma_width"], st["luma_height"], st["color_diff_width"], st["color_diff_height"]) == (fw, lh, ew, eh), "dimensions")
    for key, exc in (("luma_depth", le), ("color_diff_depth", ce)):
        dpt = st[key]
        prove(exc + 1 <= (1 << dpt) and (dpt == 0 or exc + 1 > (1 << (dpt - 1))), "depth")
    return {"reproduced": bool(bad), "key": "C09:dims:%s" % (bad[0][0] if bad else None), "detail": "inputs %r state %r" % (inputs, dict(st))}


def canaries():
    def clip_upper_bound_off_by_one():
        from vc2_conformance.pseudocode import picture_decoding as PD
        from vc2_conformance.pseudocode.vc2_math import clip

        def clip_component(state, comp_data, c):
            depth = state["luma_depth"] if c == "Y" else state["color_diff_depth"]
            for y in range(PD.height(comp_data)):
                for x in range(PD.width(comp_data)):
                    comp_data[y][x] = clip(comp_data[y][x], -(2 ** (depth - 1)), 2 ** (depth - 1) - (0 if (c == "C2" and depth == 10) else 1))

        PD.clip_component = clip_component

    def pad_removal_uses_luma_for_chroma_height():
        from vc2_conformance.pseudocode import picture_decoding as PD

        def idwt_pad_removal(state, pic, c):
            if c == "Y":
                w, h = state["luma_width"], state["luma_height"]
            else:
                w, h = state["color_diff_width"], state["luma_height"]
            PD.delete_rows_after(pic, h)
            PD.delete_columns_after(pic, w)

        PD.idwt_pad_removal = idwt_pad_removal

    def picture_output_for_incomplete_fragment():
        import vc2_conformance.decoder.stream as S
        from vc2_conformance.decoder.exceptions import SequenceContainsIncompleteFragmentedPicture

        orig = S.parse_sequence

        def parse_sequence(state):
            try:
                orig(state)
            except SequenceContainsIncompleteFragmentedPicture:
                S.picture_decode(state)

        S.parse_sequence = parse_sequence

    def picture_number_taken_from_last_fragment_offset():
        import vc2_conformance.pseudocode.picture_decoding as PD

        orig = PD.picture_decode

        def picture_decode(state):
            orig(state)

        def wrapped(state):
            state["current_picture"] = {}
            pn = state["picture_number"]
            state["current_picture"]["pic_num"] = pn if pn != 0xFFFFFFFF else 0
            PD.inverse_wavelet_transform(state)
            PD.clip_picture(state, state["current_picture"])
            PD.offset_picture(state, state["current_picture"])
            if "_output_picture_callback" in state:
                state["_output_picture_callback"](state["current_picture"], state["video_parameters"], state["picture_coding_mode"])

        PD.picture_decode = wrapped
        import vc2_conformance.decoder.stream as S

        S.picture_decode = wrapped

    return [("clip_upper_bound_off_by_one", clip_upper_bound_off_by_one), ("pad_removal_uses_luma_for_chroma_height", pad_removal_uses_luma_for_chroma_height),
            ("picture_output_for_incomplete_fragment", picture_output_for_incomplete_fragment),
            ("picture_number_taken_from_last_fragment_offset", picture_number_taken_from_last_fragment_offset)]
