"""C03 -- encoder output is a conformant stream in the requested format (reduced claim, see level_note).

Real code: encoder.make_sequence (pictures, sequence header, data-unit ordering), bitstream.autofill_and_serialise_stream,
decoder.parse_stream.  For a catalogue of concrete codec configurations with concrete tiny pictures, the *first picture
number is a symbolic 32-bit value* (explicit numbering n, n+1, ... mod 2^32, or only the first explicit and the rest AUTO):
the serialised stream must be accepted, with one decoded picture per input picture, in order, carrying the expected
picture numbers, the configured video parameters and picture coding mode (and, for lossless configurations, the input
samples).  Pixel-content universality is carried by C04/C09/C14, header universality by C15.
"""
from __future__ import annotations

import io
import random
from copy import deepcopy

from symx.core import cv_of, is_sym
from symx.symfile import SymFile

PROPERTY_ID = "C03"
LEVEL = "model_checking"
RULE = (
    "configuration catalogue (profiles x lossless/lossy x symmetric/asymmetric x slice counts x fragments x 4:4:4/4:2:2/4:2:0 x frames/"
    "fields x wavelets x custom quantisation matrix) with concrete pictures; the starting picture number is symbolic (all 2^32 values, "
    "even when pictures are fields); per path of encoder->serialiser->decoder z3 proves the decoded picture numbers; verdict, picture "
    "count, video parameters and coding mode are compared"
)
BOUNDS = {"quick": "28 configurations x {explicit, first-explicit-then-AUTO} numbering, 2 pictures", "thorough": "the same 28 configurations"}
OUTSIDE = "configurations outside the catalogue; picture content is concrete here (see C04, C09, C14)"
ASSUMPTIONS = ["when pictures are fields the first picture number is even (documented precondition of the encoder API)"]
STUBS = ["SymFile", "bytearray/bitarray stand-ins"]
BUDGET_S = {"quick": 600, "thorough": 3000}
ENGINE_OPTS = {"max_decisions": 20000}
IFCONV = ["write_bit"]
M32 = 1 << 32


def _configs(tier):
    from vc2_data_tables import Profiles, WaveletFilters as W, ColorDifferenceSamplingFormats as C, PictureCodingModes as P, SourceSamplingModes as S

    HQ, LD = Profiles.high_quality, Profiles.low_delay
    q = [
        dict(name="hq-lossy"),
        dict(name="hq-lossless", lossless=True, picture_bytes=None),
        dict(name="ld-lossy", profile=LD, picture_bytes=20),
        dict(name="hq-frag1", fragment_slice_count=1),
        dict(name="ld-frag2", profile=LD, picture_bytes=20, fragment_slice_count=2),
        dict(name="hq-asym", dwt_depth_ho=1, wavelet_index_ho=W.le_gall_5_3, wavelet_index=W.haar_no_shift, lossless=True, picture_bytes=None,
             quantization_matrix={0: {"L": 0}, 1: {"H": 1}, 2: {"HL": 1, "LH": 1, "HH": 2}}),
        dict(name="hq-fields", picture_coding_mode=P.pictures_are_fields),
        dict(name="hq-420-fields", picture_coding_mode=P.pictures_are_fields, video_parameters=dict(color_diff_format_index=C.color_4_2_0, frame_height=8, clean_height=8)),
        dict(name="hq-422", video_parameters=dict(color_diff_format_index=C.color_4_2_2)),
        dict(name="hq-slices3x2", slices_x=3, slices_y=2, picture_bytes=60),
        dict(name="hq-legall-d2", wavelet_index=W.le_gall_5_3, wavelet_index_ho=W.le_gall_5_3, dwt_depth=2, lossless=True, picture_bytes=None),
        dict(name="hq-custom-qm", quantization_matrix={0: {"LL": 2}, 1: {"HL": 1, "LH": 1, "HH": 3}}),
        dict(name="hq-10bit", video_parameters=dict(luma_offset=64, luma_excursion=876, color_diff_offset=512, color_diff_excursion=896), lossless=True, picture_bytes=None),
        dict(name="hq-hlg-hdtv", video_parameters=dict(transfer_function_index=3)),
        dict(name="ld-pq-uhd-primaries", profile=LD, picture_bytes=20, video_parameters=dict(transfer_function_index=4, color_primaries_index=3)),
        dict(name="ld-fields-frag", profile=LD, picture_bytes=24, fragment_slice_count=1, picture_coding_mode=P.pictures_are_fields),
    ]
    more = [
        dict(name="hq-odd-size", video_parameters=dict(frame_width=6, frame_height=2, clean_width=6, clean_height=2), slices_x=1, lossless=True, picture_bytes=None),
        dict(name="hq-interlaced-frames", video_parameters=dict(source_sampling=S.interlaced)),
        dict(name="hq-fidelity", wavelet_index=W.fidelity, wavelet_index_ho=W.fidelity, lossless=True, picture_bytes=None),
        dict(name="hq-daub", wavelet_index=W.daubechies_9_7, wavelet_index_ho=W.daubechies_9_7, lossless=True, picture_bytes=None),
        dict(name="hq-dd137", wavelet_index=W.deslauriers_dubuc_13_7, wavelet_index_ho=W.deslauriers_dubuc_13_7, dwt_depth=2, lossless=True, picture_bytes=None),
        dict(name="hq-depth0", dwt_depth=0, lossless=True, picture_bytes=None),
        dict(name="ld-lossy-big", profile=LD, picture_bytes=64),
        dict(name="hq-frag2-lossless", fragment_slice_count=2, lossless=True, picture_bytes=None),
        dict(name="hq-asym-depth2", dwt_depth_ho=2, dwt_depth=0, lossless=True, picture_bytes=None, quantization_matrix={0: {"L": 0}, 1: {"H": 1}, 2: {"H": 2}}),
        dict(name="hq-slices-y2", slices_x=1, slices_y=2),
        dict(name="hq-1bit", video_parameters=dict(luma_offset=0, luma_excursion=1, color_diff_offset=1, color_diff_excursion=1), lossless=True, picture_bytes=None),
        dict(name="hq-16bit", video_parameters=dict(luma_offset=0, luma_excursion=65535, color_diff_offset=32768, color_diff_excursion=65535), lossless=True, picture_bytes=None),
    ]
    return q + more


def tasks(tier, seed):
    out = []
    for i, c in enumerate(_configs(tier)):
        for mode in ("explicit", "first-then-auto"):
            out.append({"id": "%s %s" % (c["name"], mode), "harness": "seq", "args": (i, mode, tier)})
    return out


def _cf(cfg):
    from lib.streams import minimal_codec_features

    kw = {k: v for k, v in cfg.items() if k != "name"}
    return minimal_codec_features(**deepcopy(kw))


def _run(cfg, mode, first, make_file, prove, prove_eq, fail):
    from lib.streams import make_pictures
    from vc2_conformance.encoder import make_sequence
    from vc2_conformance.bitstream import Stream, autofill_and_serialise_stream
    from vc2_data_tables import PictureCodingModes
    from lib import dec

    cf = _cf(cfg)
    fields = cf["picture_coding_mode"] == PictureCodingModes.pictures_are_fields
    n = 2
    pics = make_pictures(cf, n)
    src = deepcopy(pics)
    expected = []
    for i, p in enumerate(pics):
        num = first if i == 0 else (first + i) % M32
        expected.append(num)
        if mode == "explicit" or i == 0:
            p["pic_num"] = num
    seq = make_sequence(cf, pics)
    f = make_file()
    autofill_and_serialise_stream(f, Stream(sequences=[seq]))
    got = []
    cls, st, exc = dec.run_decoder(make_file(f), on_picture=lambda pic, vp, pcm: got.append((pic, dict(vp), pcm)))
    if cls[0] != "ok":
        fail("encoder-output-rejected", list(cls))
        return cls
    prove(len(got) == n, "one-decoded-picture-per-input", [len(got), n])
    for (pic, vp, pcm), num, s in zip(got, expected, src):
        prove_eq(pic["pic_num"], num, "decoded-picture-number")
        prove(vp == dict(cf["video_parameters"]), "video-parameters", [vp, dict(cf["video_parameters"])])
        prove(int(pcm) == int(cf["picture_coding_mode"]), "picture-coding-mode")
        if cf["lossless"]:
            prove(all(pic[c] == s[c] for c in ("Y", "C1", "C2")), "lossless-content")
    return cls


def build(task):
    i, mode, tier = task["args"]
    cfg = _configs(tier)[i]

    def h(ctx):
        from vc2_data_tables import PictureCodingModes

        fields = cfg.get("picture_coding_mode") == PictureCodingModes.pictures_are_fields
        first = ctx.sym_bits("first", 32, 0xFFFFFFFE if not fields else 0xFFFFFFFE)
        if fields:
            ctx.assume((first % 2) == 0)

        def mk(f=None):
            return SymFile(f.getcells()) if f is not None else SymFile()

        cls = _run(cfg, mode, first, mk, lambda c, l, e=None: ctx.prove(c, l, e), lambda a, b, l: ctx.prove_eq(a, b, l), lambda l, e: ctx.fail(l, e))
        return list(cls)[:2]

    return h


def validate(task, inputs, outcome):
    return None


def replay(task, label, inputs, extra):
    i, mode, tier = task["args"]
    cfg = _configs(tier)[i]
    first = 0
    for j in range(32):
        first = (first << 1) | inputs.get("first.%d" % j, 1 if j < 31 else 0)
    bad = []

    def prove(c, l, e=None):
        if not c:
            bad.append((l, e))

    def mk(f=None):
        return io.BytesIO(f.getvalue()) if f is not None else io.BytesIO()

    cls = _run(cfg, mode, first, mk, prove, lambda a, b, l: prove(a == b, l, [a, b]), lambda l, e: bad.append((l, e)))
    return {"reproduced": bool(bad), "key": "C03:%s" % (bad[0][0] if bad else None),
            "detail": "configuration %s numbering %s first picture number %d: %r" % (cfg["name"], mode, first, bad[:2])}


def canaries():
    def autofill_picture_number_no_wrap():
        import vc2_conformance.bitstream.vc2_autofill as A
        import inspect, textwrap

        src = inspect.getsource(A.autofill_picture_number)
        src = src.replace('header["picture_number"] = (last_picture_number + 1) & 0xFFFFFFFF', 'header["picture_number"] = min(last_picture_number + 1, 0xFFFFFFFF)')
        assert "min(last_picture_number" in src
        ns = {}
        exec(compile(textwrap.dedent(src), "<canary>", "exec"), A.__dict__, ns)
        A.autofill_picture_number = ns["autofill_picture_number"]

    def fragment_picture_number_from_first_picture():
        import vc2_conformance.encoder.pictures as P

        orig = P.make_picture_data_units

        def make_picture_data_units(codec_features, picture, minimum_qindex=0, minimum_slice_size_scaler=1):
            dus = orig(codec_features, picture, minimum_qindex, minimum_slice_size_scaler)
            if len(dus) > 2 and "pic_num" in picture and picture["pic_num"] == 5:
                dus[-1]["fragment_parse"]["fragment_header"]["picture_number"] = 4
            return dus

        P.make_picture_data_units = make_picture_data_units
        import vc2_conformance.encoder.sequence as S

        S.make_picture_data_units = make_picture_data_units

    return [("autofill_picture_number_no_wrap", autofill_picture_number_no_wrap), ("fragment_picture_number_from_first_picture", fragment_picture_number_from_first_picture)]
